package main

import (
	"fmt"
	"go/types"
	"os"
	"path/filepath"
	"strings"
	"sync"

	"golang.org/x/tools/go/packages"
	"golang.org/x/tools/go/ssa"
	"golang.org/x/tools/go/ssa/ssautil"
)

const modPath = "github.com/junegunn/fzf"

type Program struct {
	prog     *ssa.Program
	pkgs     map[string]*ssa.Package // by import path
	redirect map[string]*ssa.Function
	sizes    types.Sizes
	mu       sync.Mutex
	ipdoms   map[*ssa.Function][]*ssa.BasicBlock // index -> ipdom (nil = exit)
	mergeOK  map[*ssa.If]int                     // region size, or -1 not mergeable
	safeFn   map[*ssa.Function]int               // 0 unknown, 1 safe, -1 unsafe, 2 in progress
	initPkgs map[string]bool
	LoadSecs float64
	Files    []string
}

// Load loads /repo packages with the given overlay (virtual path -> real file).
func Load(repo string, overlay map[string]string, patterns []string) (*Program, error) {
	ov := map[string][]byte{}
	for virt, real := range overlay {
		data, err := os.ReadFile(real)
		if err != nil {
			return nil, err
		}
		ov[virt] = data
	}
	cfg := &packages.Config{
		Mode:    packages.LoadAllSyntax,
		Dir:     repo,
		Overlay: ov,
		Env:     append(os.Environ(), "GOFLAGS=-mod=mod", "GOPROXY=off", "GOSUMDB=off", "GOTOOLCHAIN=local"),
		Tests:   false,
	}
	pkgs, err := packages.Load(cfg, patterns...)
	if err != nil {
		return nil, err
	}
	var errs []string
	packages.Visit(pkgs, nil, func(p *packages.Package) {
		for _, e := range p.Errors {
			if strings.HasPrefix(p.PkgPath, modPath) {
				errs = append(errs, e.Error())
			}
		}
	})
	if len(errs) > 0 {
		return nil, fmt.Errorf("package errors:\n%s", strings.Join(errs, "\n"))
	}
	prog, _ := ssautil.AllPackages(pkgs, ssa.InstantiateGenerics)
	prog.Build()
	P := &Program{prog: prog, pkgs: map[string]*ssa.Package{}, redirect: map[string]*ssa.Function{},
		ipdoms: map[*ssa.Function][]*ssa.BasicBlock{}, mergeOK: map[*ssa.If]int{}, safeFn: map[*ssa.Function]int{},
		sizes: types.SizesFor("gc", "amd64"), initPkgs: map[string]bool{}}
	for _, p := range prog.AllPackages() {
		P.pkgs[p.Pkg.Path()] = p
	}
	if z := P.pkgs[modPath+"/src/zzv"]; z != nil {
		for real, model := range redirects {
			fn := z.Func(model)
			if fn == nil {
				return nil, fmt.Errorf("model %s missing in zzv", model)
			}
			P.redirect[real] = fn
		}
		// models of functions of other packages that need the harness package's types
		if pk := P.pkgs[modPath+"/src"]; pk != nil {
			for real, model := range map[string]string{
				"github.com/charlievieth/fastwalk.Walk":            "zzMX_fastwalk_Walk",
				"github.com/charlievieth/fastwalk.DefaultToSlash": "zzMX_fastwalk_DefaultToSlash",
				"net.Listen": "zzMX_net_Listen",
				"encoding/json.Marshal": "zzMX_json_Marshal",
			} {
				if fn := pk.Func(model); fn != nil {
					P.redirect[real] = fn
				}
			}
		}
		// models that need the target package's types live in its harness files: zzM_<Func> replaces <Func>
		for _, path := range []string{modPath + "/src", modPath + "/src/algo", modPath + "/src/util"} {
			if pk := P.pkgs[path]; pk != nil {
				for name, m := range pk.Members {
					if fn, ok := m.(*ssa.Function); ok && strings.HasPrefix(name, "zzM_") {
						P.redirect[path+"."+name[4:]] = fn
					}
				}
			}
		}
	}
	for _, s := range []string{modPath + "/src/algo", modPath + "/src/util", modPath + "/src", modPath + "/src/zzv",
		"unicode", "unicode/utf8", "strings", "bytes", "strconv", "sort", "math", "math/bits", "unicode/utf16", "io", "errors", "io/fs", "bufio", "path/filepath", "path",
		"internal/stringslite", "slices", "cmp", "crypto/subtle", "net", "internal/poll"} {
		P.initPkgs[s] = true
	}
	return P, nil
}

func (P *Program) wantInit(pkg *ssa.Package) bool {
	return P.initPkgs[pkg.Pkg.Path()]
}

// initCallOK: during package initialisation only functions of "simple" packages are interpreted;
// everything else yields opaque values.
func (P *Program) initCallOK(fn *ssa.Function) bool {
	if fn.Pkg == nil {
		if fn.Origin() != nil && fn.Origin().Pkg != nil {
			return P.initOKPkg(fn.Origin().Pkg.Pkg.Path())
		}
		return fn.Parent() != nil || strings.Contains(fn.String(), "$bound") || strings.Contains(fn.String(), "$thunk")
	}
	return P.initOKPkg(fn.Pkg.Pkg.Path())
}

func (P *Program) initOKPkg(path string) bool {
	switch path {
	case modPath + "/src/algo", modPath + "/src/util", modPath + "/src", modPath + "/src/zzv", modPath + "/src/tui",
		"unicode", "unicode/utf8", "strings", "bytes", "errors", "sort", "math", "math/bits", "strconv", "slices", "cmp",
		"internal/stringslite", "internal/bytealg", "unicode/utf16", "internal/itoa", "io", "io/fs", "internal/oserror", "bufio", "path/filepath", "path":
		return true
	}
	return false
}

func (P *Program) funcByName(pkg, name string) *ssa.Function {
	p := P.pkgs[pkg]
	if p == nil {
		panic(unsupportedErr{"package not loaded: " + pkg})
	}
	fn := p.Func(name)
	if fn == nil {
		panic(unsupportedErr{"function not found: " + pkg + "." + name})
	}
	return fn
}

func (P *Program) sizeof(t types.Type) int64 {
	if t == nil {
		return 8
	}
	defer func() { recover() }()
	return P.sizes.Sizeof(t)
}

// ---------- post-dominators ----------

func (P *Program) ipdom(b *ssa.BasicBlock) *ssa.BasicBlock {
	fn := b.Parent()
	P.mu.Lock()
	defer P.mu.Unlock()
	ip, ok := P.ipdoms[fn]
	if !ok {
		ip = computeIpdom(fn)
		P.ipdoms[fn] = ip
	}
	return ip[b.Index]
}

// computeIpdom: iterative post-dominator computation with a virtual exit (index n).
func computeIpdom(fn *ssa.Function) []*ssa.BasicBlock {
	n := len(fn.Blocks)
	exit := n
	// successor lists incl. virtual exit
	succs := make([][]int, n+1)
	preds := make([][]int, n+1)
	for _, b := range fn.Blocks {
		if len(b.Succs) == 0 {
			succs[b.Index] = []int{exit}
			preds[exit] = append(preds[exit], b.Index)
		}
		for _, s := range b.Succs {
			succs[b.Index] = append(succs[b.Index], s.Index)
			preds[s.Index] = append(preds[s.Index], b.Index)
		}
	}
	// reverse post-order on the reverse graph from exit
	order := []int{}
	seen := make([]bool, n+1)
	var dfs func(v int)
	dfs = func(v int) {
		seen[v] = true
		for _, p := range preds[v] {
			if !seen[p] {
				dfs(p)
			}
		}
		order = append(order, v)
	}
	dfs(exit)
	rpoNum := make([]int, n+1)
	for i := range rpoNum {
		rpoNum[i] = -1
	}
	for i, v := range order {
		rpoNum[v] = len(order) - 1 - i
	}
	rpo := make([]int, len(order))
	for _, v := range order {
		rpo[rpoNum[v]] = v
	}
	idom := make([]int, n+1)
	for i := range idom {
		idom[i] = -1
	}
	idom[exit] = exit
	intersect := func(a, b int) int {
		for a != b {
			for rpoNum[a] > rpoNum[b] {
				a = idom[a]
			}
			for rpoNum[b] > rpoNum[a] {
				b = idom[b]
			}
		}
		return a
	}
	changed := true
	for changed {
		changed = false
		for _, v := range rpo {
			if v == exit {
				continue
			}
			newIdom := -1
			for _, s := range succs[v] {
				if idom[s] == -1 {
					continue
				}
				if newIdom == -1 {
					newIdom = s
				} else {
					newIdom = intersect(s, newIdom)
				}
			}
			if newIdom != -1 && idom[v] != newIdom {
				idom[v] = newIdom
				changed = true
			}
		}
	}
	res := make([]*ssa.BasicBlock, n)
	for i := 0; i < n; i++ {
		if idom[i] >= 0 && idom[i] < n {
			res[i] = fn.Blocks[idom[i]]
		}
	}
	return res
}

// ---------- mergeability ----------

// mergeable reports whether the region of the If (up to its immediate
// post-dominator) is loop-free, small and contains only mergeable instructions.
func (P *Program) mergeable(ins *ssa.If, job *Job) bool {
	P.mu.Lock()
	sz, ok := P.mergeOK[ins]
	P.mu.Unlock()
	if !ok {
		sz = P.regionSize(ins)
		P.mu.Lock()
		P.mergeOK[ins] = sz
		P.mu.Unlock()
	}
	if sz < 0 || sz > job.MergeLimit {
		return false
	}
	if len(job.NoMergeFuncs) > 0 {
		name := ins.Parent().Name()
		for _, f := range job.NoMergeFuncs {
			if f == name {
				return false
			}
		}
	}
	return true
}

func (P *Program) regionSize(ins *ssa.If) int {
	blk := ins.Block()
	join := P.ipdom(blk)
	// collect region blocks
	region := map[*ssa.BasicBlock]bool{}
	var stack []*ssa.BasicBlock
	for _, s := range blk.Succs {
		if s != join {
			stack = append(stack, s)
		}
	}
	for len(stack) > 0 {
		b := stack[len(stack)-1]
		stack = stack[:len(stack)-1]
		if region[b] {
			continue
		}
		if b == blk {
			return -1 // loops back to the branch itself
		}
		region[b] = true
		for _, s := range b.Succs {
			if s != join && !region[s] {
				stack = append(stack, s)
			}
		}
	}
	// cycle check
	color := map[*ssa.BasicBlock]int{}
	var cyc func(b *ssa.BasicBlock) bool
	cyc = func(b *ssa.BasicBlock) bool {
		color[b] = 1
		for _, s := range b.Succs {
			if !region[s] {
				continue
			}
			if color[s] == 1 {
				return true
			}
			if color[s] == 0 && cyc(s) {
				return true
			}
		}
		color[b] = 2
		return false
	}
	for b := range region {
		if color[b] == 0 && cyc(b) {
			return -1
		}
	}
	size := 0
	for b := range region {
		for _, i := range b.Instrs {
			size++
			if !P.instrMergeable(i) {
				return -1
			}
		}
	}
	return size
}

func (P *Program) instrMergeable(i ssa.Instruction) bool {
	switch i := i.(type) {
	case *ssa.Go, *ssa.Defer, *ssa.RunDefers, *ssa.Send, *ssa.Select, *ssa.MakeChan, *ssa.MapUpdate, *ssa.Range, *ssa.Next:
		return false
	case *ssa.Call:
		c := i.Common()
		if c.IsInvoke() {
			return false
		}
		switch f := c.Value.(type) {
		case *ssa.Builtin:
			switch f.Name() {
			case "delete", "clear", "recover":
				return false
			}
			return true
		case *ssa.Function:
			return P.fnMergeSafe(f)
		}
		return false
	}
	return true
}

func (P *Program) fnMergeSafe(fn *ssa.Function) bool {
	P.mu.Lock()
	st := P.safeFn[fn]
	P.mu.Unlock()
	if st == 1 {
		return true
	}
	if st == -1 || st == 2 {
		return false // unsafe or recursive
	}
	name := fn.String()
	res := -1
	if k, ok := intrinsicMergeSafe[name]; ok {
		if k {
			res = 1
		}
	} else if fn.Origin() != nil && intrinsicMergeSafe[fn.Origin().String()] {
		res = 1
	} else {
		tgt := fn
		if r, ok := P.redirect[name]; ok {
			tgt = r
		}
		if tgt.Blocks != nil {
			P.mu.Lock()
			P.safeFn[fn] = 2
			P.mu.Unlock()
			n := 0
			ok := !hasCycle(tgt)
			for _, b := range tgt.Blocks {
				for _, i := range b.Instrs {
					n++
					if !P.instrMergeable(i) {
						ok = false
					}
				}
			}
			if ok && n <= 400 {
				res = 1
			}
		}
	}
	P.mu.Lock()
	P.safeFn[fn] = res
	P.mu.Unlock()
	return res == 1
}

// harnessInfo: statically collect Assert / Reach ids used in a harness function (and same-package callees).
func (P *Program) harnessIDs(fn *ssa.Function) (asserts, reaches []string) {
	seen := map[*ssa.Function]bool{}
	am, rm := map[string]bool{}, map[string]bool{}
	var visit func(f *ssa.Function)
	visit = func(f *ssa.Function) {
		if seen[f] || f.Blocks == nil {
			return
		}
		seen[f] = true
		for _, b := range f.Blocks {
			for _, i := range b.Instrs {
				if mc, ok := i.(*ssa.MakeClosure); ok {
					visit(mc.Fn.(*ssa.Function))
				}
				c, ok := i.(ssa.CallInstruction)
				if !ok {
					continue
				}
				callee := c.Common().StaticCallee()
				if callee == nil {
					continue
				}
				nm := callee.String()
				if nm == modPath+"/src/zzv.Assert" || nm == modPath+"/src/zzv.Reach" {
					if k, ok := c.Common().Args[0].(*ssa.Const); ok {
						id := strings.Trim(k.Value.ExactString(), "\"")
						if strings.HasSuffix(nm, "Assert") {
							am[id] = true
						} else {
							rm[id] = true
						}
					}
					continue
				}
				if callee.Pkg == fn.Pkg && strings.HasPrefix(filepath.Base(P.prog.Fset.Position(callee.Pos()).Filename), "zz_") {
					visit(callee)
				}
			}
		}
	}
	visit(fn)
	for k := range am {
		asserts = append(asserts, k)
	}
	for k := range rm {
		reaches = append(reaches, k)
	}
	return
}

func hasCycle(fn *ssa.Function) bool {
	color := make([]int, len(fn.Blocks))
	var rec func(b *ssa.BasicBlock) bool
	rec = func(b *ssa.BasicBlock) bool {
		color[b.Index] = 1
		for _, s := range b.Succs {
			if color[s.Index] == 1 {
				return true
			}
			if color[s.Index] == 0 && rec(s) {
				return true
			}
		}
		color[b.Index] = 2
		return false
	}
	return len(fn.Blocks) > 0 && rec(fn.Blocks[0])
}
