package main

// Persistent SMT solver process (z3 -in / cvc5 --incremental) with push/pop
// scoped term definitions.

import (
	"os"
	"bufio"
	"fmt"
	"io"
	"os/exec"
	"strconv"
	"strings"
	"time"
)

type SolverKind int

const (
	Z3 SolverKind = iota
	Z3New
	CVC5
)

func (k SolverKind) String() string { return [...]string{"z3-4.8.12", "z3-5.1.0", "cvc5-1.0"}[k] }

type Solver struct {
	kind    SolverKind
	cmd     *exec.Cmd
	in      io.WriteCloser
	out     *bufio.Reader
	defined map[int]bool // term ids defined/declared
	levels  [][]int      // ids defined at each push level
	log     io.Writer    // optional full query log
	Queries int
	SatN    int
	UnsatN  int
	UnkN    int
	Time    time.Duration
	timeout int // ms per query
	dead    bool
	errLine string
	capture *strings.Builder // when set, commands of the current query are recorded
	XDir    string           // directory for cross-check dumps ("" = off)
	XEvery  int
	xdumped int
	xcount  int
	xid     string
	sinceReset int
}

func NewSolver(kind SolverKind, timeoutMs int) (*Solver, error) {
	var cmd *exec.Cmd
	switch kind {
	case Z3:
		cmd = exec.Command("/usr/bin/z3", "-in", "-smt2")
	case Z3New:
		cmd = exec.Command("z3-new", "-in", "-smt2")
	case CVC5:
		cmd = exec.Command("cvc5", "--incremental", "--lang=smt2", "--produce-models", fmt.Sprintf("--tlimit-per=%d", timeoutMs))
	}
	in, err := cmd.StdinPipe()
	if err != nil {
		return nil, err
	}
	out, err := cmd.StdoutPipe()
	if err != nil {
		return nil, err
	}
	cmd.Stderr = cmd.Stdout
	if err := cmd.Start(); err != nil {
		return nil, err
	}
	s := &Solver{kind: kind, cmd: cmd, in: in, out: bufio.NewReaderSize(out, 1<<16), defined: map[int]bool{}, levels: [][]int{nil}, timeout: timeoutMs}
	s.send("(set-option :print-success false)")
	if kind != CVC5 {
		s.send("(set-option :produce-models true)")
		s.send(fmt.Sprintf("(set-option :timeout %d)", timeoutMs))
	}
	s.send("(set-logic QF_BV)")
	return s, nil
}

func (s *Solver) Close() {
	if s == nil || s.dead {
		return
	}
	s.dead = true
	s.in.Close()
	s.cmd.Process.Kill()
	s.cmd.Wait()
}

func (s *Solver) send(line string) {
	if s.log != nil {
		fmt.Fprintln(s.log, line)
	}
	if s.capture != nil && !strings.HasPrefix(line, "(push") && !strings.HasPrefix(line, "(pop") && !strings.HasPrefix(line, "(get-value") {
		s.capture.WriteString(line)
		s.capture.WriteByte('\n')
	}
	io.WriteString(s.in, line)
	io.WriteString(s.in, "\n")
}

func (s *Solver) Push() {
	s.send("(push 1)")
	s.levels = append(s.levels, nil)
}

func (s *Solver) Pop() {
	s.send("(pop 1)")
	top := s.levels[len(s.levels)-1]
	for _, id := range top {
		delete(s.defined, id)
	}
	s.levels = s.levels[:len(s.levels)-1]
}

// PopAll pops back to the base level.
func (s *Solver) PopAll() {
	for len(s.levels) > 1 {
		s.Pop()
	}
}

func (s *Solver) Depth() int { return len(s.levels) - 1 }

// define makes sure t (and its sub-terms) are defined at the current level.
func (s *Solver) define(t *Term) {
	if t.Op == OpConst || s.defined[t.id] {
		return
	}
	// iterative post-order to avoid deep recursion
	type fr struct {
		t *Term
		i int
	}
	stack := []fr{{t, 0}}
	for len(stack) > 0 {
		f := &stack[len(stack)-1]
		if f.t.Op == OpConst || s.defined[f.t.id] {
			stack = stack[:len(stack)-1]
			continue
		}
		if f.i < len(f.t.Args) {
			a := f.t.Args[f.i]
			f.i++
			if a.Op != OpConst && !s.defined[a.id] {
				stack = append(stack, fr{a, 0})
			}
			continue
		}
		x := f.t
		stack = stack[:len(stack)-1]
		if x.Op == OpVar {
			s.send(fmt.Sprintf("(declare-const %s %s)", x.Name, sortOf(x.W)))
		} else {
			s.send(fmt.Sprintf("(define-fun t%d () %s %s)", x.id, sortOf(x.W), x.body()))
		}
		s.defined[x.id] = true
		lv := len(s.levels) - 1
		s.levels[lv] = append(s.levels[lv], x.id)
	}
}

func (s *Solver) Assert(t *Term) {
	if t.IsTrue() {
		return
	}
	s.define(t)
	s.send("(assert " + t.ref() + ")")
}

type Verdict int

const (
	Sat Verdict = iota
	Unsat
	Unknown
)

func (v Verdict) String() string { return [...]string{"sat", "unsat", "unknown"}[v] }

// Check runs check-sat on the current assertion stack.
func (s *Solver) Check() Verdict {
	t0 := time.Now()
	s.send("(check-sat)")
	s.Queries++
	v := Unknown
	for {
		line, err := s.out.ReadString('\n')
		if err != nil {
			s.dead = true
			break
		}
		line = strings.TrimSpace(line)
		if line == "" {
			continue
		}
		if line == "sat" {
			v = Sat
			break
		}
		if line == "unsat" {
			v = Unsat
			break
		}
		if line == "unknown" || strings.HasPrefix(line, "timeout") {
			v = Unknown
			break
		}
		if strings.Contains(line, "error") {
			// any error line makes the verdict inconclusive; keep reading until the answer arrives
			if s.log != nil {
				fmt.Fprintln(s.log, "; SOLVER ERROR: "+line)
			}
			s.errLine = line
			continue
		}
	}
	if s.errLine != "" {
		v = Unknown
	}
	s.Time += time.Since(t0)
	if s.log != nil {
		fmt.Fprintf(s.log, "; TIME %.1fms %s\n", float64(time.Since(t0).Microseconds())/1000, v)
	}
	switch v {
	case Sat:
		s.SatN++
	case Unsat:
		s.UnsatN++
	default:
		s.UnkN++
	}
	return v
}

// CheckWith checks the stack plus extra assertions (scoped).
func (s *Solver) CheckWith(extra ...*Term) Verdict {
	for _, e := range extra {
		s.define(e)
	}
	s.Push()
	for _, e := range extra {
		s.Assert(e)
	}
	v := s.Check()
	s.Pop()
	return v
}

// CheckWithModel is CheckWith that also returns values for vars on sat.
func (s *Solver) CheckWithModel(vars []*Term, extra ...*Term) (Verdict, Model) {
	for _, e := range extra {
		s.define(e)
	}
	for _, v := range vars {
		s.define(v)
	}
	s.Push()
	for _, e := range extra {
		s.Assert(e)
	}
	v := s.Check()
	var m Model
	if v == Sat {
		m = s.getModel(vars)
	}
	s.Pop()
	return v, m
}

func (s *Solver) getModel(vars []*Term) Model {
	m := Model{}
	if len(vars) == 0 {
		return m
	}
	var sb strings.Builder
	sb.WriteString("(get-value (")
	for _, v := range vars {
		sb.WriteString(v.Name)
		sb.WriteString(" ")
	}
	sb.WriteString("))")
	s.send(sb.String())
	// read balanced s-expression
	depth := 0
	var txt strings.Builder
	started := false
	for {
		c, err := s.out.ReadByte()
		if err != nil {
			s.dead = true
			return m
		}
		txt.WriteByte(c)
		if c == '(' {
			depth++
			started = true
		} else if c == ')' {
			depth--
			if started && depth == 0 {
				break
			}
		}
	}
	byName := map[string]*Term{}
	for _, v := range vars {
		byName[v.Name] = v
	}
	toks := strings.FieldsFunc(txt.String(), func(r rune) bool { return r == '(' || r == ')' || r == ' ' || r == '\n' || r == '\t' || r == '\r' })
	for i := 0; i+1 < len(toks); i++ {
		v, ok := byName[toks[i]]
		if !ok {
			continue
		}
		val := toks[i+1]
		var n uint64
		switch {
		case strings.HasPrefix(val, "#x"):
			n, _ = strconv.ParseUint(val[2:], 16, 64)
		case strings.HasPrefix(val, "#b"):
			n, _ = strconv.ParseUint(val[2:], 2, 64)
		case val == "true":
			n = 1
		case val == "false":
			n = 0
		case val == "_" && i+2 < len(toks) && strings.HasPrefix(toks[i+2], "bv"):
			n, _ = strconv.ParseUint(toks[i+2][2:], 10, 64)
		}
		m[v.Name] = n
		i++
	}
	return m
}

// Solve decides the conjunction of conj as a standalone problem (nothing is kept
// on the solver's assertion stack between calls) and returns values for wantVars on sat.
func (s *Solver) Solve(conj []*Term, wantVars []*Term) (Verdict, Model) {
	s.errLine = ""
	// the solver process accumulates memory over many push/pop rounds: start afresh regularly
	s.sinceReset++
	if s.sinceReset >= 3000 && len(s.levels) == 1 {
		s.sinceReset = 0
		s.send("(reset)")
		s.send("(set-option :print-success false)")
		if s.kind != CVC5 {
			s.send("(set-option :produce-models true)")
			s.send(fmt.Sprintf("(set-option :timeout %d)", s.timeout))
		}
		s.send("(set-logic QF_BV)")
		s.defined = map[int]bool{}
		s.levels = [][]int{nil}
	}
	dump := false
	if s.XDir != "" && s.XEvery > 0 {
		s.xcount++
		if s.xcount%s.XEvery == 0 {
			dump = true
			s.capture = &strings.Builder{}
		}
	}
	defer func() { s.capture = nil }()
	s.Push()
	for _, c := range conj {
		s.define(c)
	}
	for _, v := range wantVars {
		s.define(v)
	}
	for _, c := range conj {
		s.Assert(c)
	}
	v := s.Check()
	if dump && v != Unknown {
		body := s.capture.String()
		s.capture = nil
		name := fmt.Sprintf("%s/q_%s_%06d_%s.smt2", s.XDir, s.xid, s.xcount, v)
		os.WriteFile(name, []byte("(set-logic QF_BV)\n"+body), 0644)
		// keep the sample spread over the whole run without filling the disk: after every 64 dumps
		// of this worker the stride doubles
		s.xdumped++
		if s.xdumped%64 == 0 {
			s.XEvery *= 2
		}
	}
	s.capture = nil
	var m Model
	if v == Sat {
		m = s.getModel(wantVars)
	}
	s.Pop()
	return v, m
}
