package main

import (
	"fmt"
	"go/token"
	"go/types"
	"reflect"
	"unicode/utf8"

	"golang.org/x/tools/go/ssa"
)

func (w *Worker) exec(fr *frame, ins ssa.Instruction) {
	switch ins := ins.(type) {
	case *ssa.DebugRef:
	case *ssa.Alloc:
		p := new(Value)
		*p = w.zero(ins.Type().(*types.Pointer).Elem())
		fr.env[ins] = Ptr{p: p}
	case *ssa.BinOp:
		fr.env[ins] = w.binop(ins.Op, ins.X.Type(), w.get(fr, ins.X), w.get(fr, ins.Y), ins.Y.Type())
	case *ssa.UnOp:
		fr.env[ins] = w.unop(ins, w.get(fr, ins.X))
	case *ssa.Store:
		w.store(w.get(fr, ins.Addr).(Ptr), w.get(fr, ins.Val))
	case *ssa.Call:
		fn, args := w.prepareCall(fr, &ins.Call)
		fr.env[ins] = w.call(fn, args, ins)
	case *ssa.ChangeType:
		fr.env[ins] = w.get(fr, ins.X)
	case *ssa.ChangeInterface:
		fr.env[ins] = w.get(fr, ins.X)
	case *ssa.Convert:
		fr.env[ins] = w.conv(ins.Type(), ins.X.Type(), w.get(fr, ins.X))
	case *ssa.MultiConvert:
		fr.env[ins] = w.conv(ins.Type(), ins.X.Type(), w.get(fr, ins.X))
	case *ssa.MakeInterface:
		fr.env[ins] = IfaceV{t: ins.X.Type(), v: w.get(fr, ins.X)}
	case *ssa.Extract:
		fr.env[ins] = w.get(fr, ins.Tuple).(TupleV)[ins.Index]
	case *ssa.Slice:
		fr.env[ins] = w.sliceOp(fr, ins)
	case *ssa.FieldAddr:
		fr.env[ins] = w.fieldAddr(w.get(fr, ins.X).(Ptr), ins.Field)
	case *ssa.Field:
		fr.env[ins] = copyVal(w.get(fr, ins.X).(StructV)[ins.Field])
	case *ssa.IndexAddr:
		fr.env[ins] = w.indexAddr(fr, ins)
	case *ssa.Index:
		fr.env[ins] = w.indexOp(fr, ins)
	case *ssa.Lookup:
		fr.env[ins] = w.lookup(fr, ins)
	case *ssa.MapUpdate:
		w.mapUpdate(w.get(fr, ins.Map).(*MapV), w.get(fr, ins.Key), w.get(fr, ins.Value))
	case *ssa.TypeAssert:
		fr.env[ins] = w.typeAssert(ins, w.get(fr, ins.X).(IfaceV))
	case *ssa.MakeClosure:
		free := make([]Value, len(ins.Bindings))
		for i, b := range ins.Bindings {
			free[i] = w.get(fr, b)
		}
		fr.env[ins] = &FuncV{fn: ins.Fn.(*ssa.Function), free: free}
	case *ssa.MakeSlice:
		ln := w.concInt(w.get(fr, ins.Len).(*Term), "make len")
		cp := w.concInt(w.get(fr, ins.Cap).(*Term), "make cap")
		if ln < 0 || cp < ln {
			w.panicNow("makeslice: len out of range")
		}
		if cp > 1<<20 {
			w.fail("make: slice too large (%d)", cp)
		}
		s := make([]Value, ln, cp)
		et := ins.Type().Underlying().(*types.Slice).Elem()
		full := s[:cp]
		for i := range full {
			full[i] = w.zero(et)
		}
		fr.env[ins] = SliceV{s: s}
	case *ssa.MakeMap:
		mt := ins.Type().Underlying().(*types.Map)
		fr.env[ins] = &MapV{kt: mt.Key(), vt: mt.Elem()}
	case *ssa.MakeChan:
		fr.env[ins] = &ChanV{cap: w.concInt(w.get(fr, ins.Size).(*Term), "chan size")}
	case *ssa.Range:
		fr.env[ins] = w.rangeIter(w.get(fr, ins.X))
	case *ssa.Next:
		fr.env[ins] = w.next(w.get(fr, ins.Iter).(*IterV), ins)
	case *ssa.Defer:
		fn, args := w.prepareCall(fr, &ins.Call)
		fr.defers = append(fr.defers, func() { w.call(fn, args, ins) })
	case *ssa.RunDefers:
		for i := len(fr.defers) - 1; i >= 0; i-- {
			fr.defers[i]()
		}
		fr.defers = nil
	case *ssa.Go:
		if w.inInit {
			return
		}
		fn, args := w.prepareCall(fr, &ins.Call)
		if fn.fn != nil {
			for _, name := range w.job.CoroutineFuncs {
				if fn.fn.Name() == name {
					w.spawn(fn, args, ins)
					return
				}
			}
		}
		if w.job.GoInline {
			w.call(fn, args, ins)
			return
		}
		w.fail("go statement not supported at %s", w.curPos())
	case *ssa.Send:
		if w.inInit {
			return
		}
		ch, ok := w.get(fr, ins.Chan).(*ChanV)
		if !ok || ch == nil {
			w.fail("send on unsupported channel at %s", w.curPos())
		}
		w.chanSend(ch, w.get(fr, ins.X))
	case *ssa.Select:
		// sequential model: the first send state on a modelled channel is taken
		taken := -1
		for k, st := range ins.States {
			if st.Dir == types.SendOnly {
				if ch, ok := w.get(fr, st.Chan).(*ChanV); ok && ch != nil {
					w.chanSend(ch, w.get(fr, st.Send))
					taken = k
					break
				}
			}
		}
		if taken < 0 {
			if !ins.Blocking {
				taken = -1
			} else {
				w.fail("select without a modelled send state at %s", w.curPos())
			}
		}
		tt := ins.Type().(*types.Tuple)
		tv := make(TupleV, tt.Len())
		tv[0] = w.B.Const(uint64(int64(taken)), 64)
		tv[1] = w.B.False
		for k := 2; k < tt.Len(); k++ {
			tv[k] = w.zero(tt.At(k).Type())
		}
		fr.env[ins] = tv
	case *ssa.SliceToArrayPointer:
		s := w.get(fr, ins.X).(SliceV)
		n := int(ins.Type().(*types.Pointer).Elem().Underlying().(*types.Array).Len())
		if len(s.s) < n {
			w.panicNow("slice to array pointer: length too short")
		}
		// an array object aliasing the slice is not representable; copy (documented limitation)
		w.fail("SliceToArrayPointer not supported")
	default:
		w.fail("unsupported instruction %T at %s", ins, w.curPos())
	}
}

func (w *Worker) chanSend(ch *ChanV, v Value) {
	if w.inMerge > 0 {
		panic(mergeAbort{"channel send in merged region"})
	}
	nb := append(append([]Value{}, ch.buf...), v)
	p := new(Value)
	*p = SliceV{s: ch.buf}
	// journal through a closure-free trick: store old buffer in a slot we can restore
	w.journal = append(w.journal, jent{ch: ch, chOld: ch.buf})
	ch.buf = nb
}

func (w *Worker) concInt(t *Term, what string) int {
	if t.IsConst() {
		return int(sext64(t.Val, t.W))
	}
	return int(sext64(w.concretize(t, what), t.W))
}

// ---------- calls ----------

func (w *Worker) prepareCall(fr *frame, c *ssa.CallCommon) (*FuncV, []Value) {
	var args []Value
	var fn *FuncV
	if c.IsInvoke() {
		recv := w.get(fr, c.Value).(IfaceV)
		if recv.t == nil {
			w.panicNow("method call on nil interface")
		}
		m := w.P.prog.LookupMethod(recv.t, c.Method.Pkg(), c.Method.Name())
		if m == nil {
			w.fail("method %s not found on %s", c.Method.Name(), recv.t)
		}
		fn = &FuncV{fn: m}
		args = append(args, recv.v)
	} else {
		switch v := w.get(fr, c.Value).(type) {
		case *FuncV:
			fn = v
		default:
			w.fail("call of %T", v)
		}
	}
	for _, a := range c.Args {
		args = append(args, w.get(fr, a))
	}
	return fn, args
}

// ---------- binop / unop ----------

func (w *Worker) binop(op token.Token, xt types.Type, x, y Value, yt types.Type) Value {
	b := w.B
	switch xv := x.(type) {
	case *Term:
		yv, ok := y.(*Term)
		if !ok {
			w.fail("binop term/%T", y)
		}
		if xv.W == 0 { // bool
			switch op {
			case token.EQL:
				return b.Eq(xv, yv)
			case token.NEQ:
				return b.Not(b.Eq(xv, yv))
			case token.AND:
				return b.And(xv, yv)
			case token.OR:
				return b.Or(xv, yv)
			}
			w.fail("bool binop %s", op)
		}
		signed := isSigned(xt)
		switch op {
		case token.SHL, token.SHR:
			cnt := yv
			if cnt.W > xv.W {
				big := b.Cmp(OpUle, b.Const(uint64(xv.W), cnt.W), cnt)
				cnt = b.Ite(big, b.Const(uint64(xv.W), xv.W), b.Extract(cnt, xv.W-1, 0))
			} else if cnt.W < xv.W {
				cnt = b.ZExt(cnt, xv.W)
			}
			if op == token.SHL {
				return b.Bin(OpShl, xv, cnt)
			}
			if signed {
				return b.Bin(OpAShr, xv, cnt)
			}
			return b.Bin(OpLShr, xv, cnt)
		}
		if xv.W != yv.W {
			w.fail("binop width mismatch %d/%d at %s", xv.W, yv.W, w.curPos())
		}
		switch op {
		case token.ADD:
			return b.Bin(OpAdd, xv, yv)
		case token.SUB:
			return b.Bin(OpSub, xv, yv)
		case token.MUL:
			return b.Bin(OpMul, xv, yv)
		case token.QUO, token.REM:
			w.oblige(b.Not(b.Eq(yv, b.Const(0, yv.W))), "panic", "integer divide by zero", w.curPos())
			if op == token.QUO {
				if signed {
					return b.Bin(OpSDiv, xv, yv)
				}
				return b.Bin(OpUDiv, xv, yv)
			}
			if signed {
				return b.Bin(OpSRem, xv, yv)
			}
			return b.Bin(OpURem, xv, yv)
		case token.AND:
			return b.Bin(OpAnd, xv, yv)
		case token.OR:
			return b.Bin(OpOr, xv, yv)
		case token.XOR:
			return b.Bin(OpXor, xv, yv)
		case token.AND_NOT:
			return b.Bin(OpAnd, xv, b.Un(OpNot, yv))
		case token.EQL:
			return b.Eq(xv, yv)
		case token.NEQ:
			return b.Not(b.Eq(xv, yv))
		case token.LSS:
			if signed {
				return b.Cmp(OpSlt, xv, yv)
			}
			return b.Cmp(OpUlt, xv, yv)
		case token.LEQ:
			if signed {
				return b.Cmp(OpSle, xv, yv)
			}
			return b.Cmp(OpUle, xv, yv)
		case token.GTR:
			if signed {
				return b.Cmp(OpSlt, yv, xv)
			}
			return b.Cmp(OpUlt, yv, xv)
		case token.GEQ:
			if signed {
				return b.Cmp(OpSle, yv, xv)
			}
			return b.Cmp(OpUle, yv, xv)
		}
		w.fail("int binop %s", op)
	case float64:
		yv := y.(float64)
		switch op {
		case token.ADD:
			return xv + yv
		case token.SUB:
			return xv - yv
		case token.MUL:
			return xv * yv
		case token.QUO:
			return xv / yv
		case token.EQL:
			return b.Bool(xv == yv)
		case token.NEQ:
			return b.Bool(xv != yv)
		case token.LSS:
			return b.Bool(xv < yv)
		case token.LEQ:
			return b.Bool(xv <= yv)
		case token.GTR:
			return b.Bool(xv > yv)
		case token.GEQ:
			return b.Bool(xv >= yv)
		}
		w.fail("float binop %s", op)
	case StrV:
		yv := y.(StrV)
		switch op {
		case token.ADD:
			r := make([]*Term, 0, len(xv.b)+len(yv.b))
			r = append(r, xv.b...)
			r = append(r, yv.b...)
			return StrV{r}
		case token.EQL:
			return w.strEq(xv, yv)
		case token.NEQ:
			return b.Not(w.strEq(xv, yv))
		case token.LSS:
			return w.strLess(xv, yv, false)
		case token.LEQ:
			return w.strLess(xv, yv, true)
		case token.GTR:
			return w.strLess(yv, xv, false)
		case token.GEQ:
			return w.strLess(yv, xv, true)
		}
		w.fail("string binop %s", op)
	}
	// equality on other kinds
	switch op {
	case token.EQL:
		return w.equal(x, y)
	case token.NEQ:
		return b.Not(w.equal(x, y))
	}
	w.fail("binop %s on %T", op, x)
	return nil
}

func (w *Worker) strEq(x, y StrV) *Term {
	if len(x.b) != len(y.b) {
		return w.B.False
	}
	cs := make([]*Term, len(x.b))
	for i := range cs {
		cs[i] = w.B.Eq(x.b[i], y.b[i])
	}
	return w.B.And(cs...)
}

func (w *Worker) strLess(x, y StrV, orEq bool) *Term {
	b := w.B
	// lexicographic, from the end backwards
	n := len(x.b)
	if len(y.b) < n {
		n = len(y.b)
	}
	var r *Term
	if len(x.b) < len(y.b) {
		r = b.True
	} else if len(x.b) == len(y.b) {
		r = b.Bool(orEq)
	} else {
		r = b.False
	}
	for i := n - 1; i >= 0; i-- {
		r = b.Ite(b.Cmp(OpUlt, x.b[i], y.b[i]), b.True, b.Ite(b.Eq(x.b[i], y.b[i]), r, b.False))
	}
	return r
}

func (w *Worker) equal(x, y Value) *Term {
	b := w.B
	switch xv := x.(type) {
	case *Term:
		return b.Eq(xv, y.(*Term))
	case float64:
		return b.Bool(xv == y.(float64))
	case StrV:
		return w.strEq(xv, y.(StrV))
	case Ptr:
		yv := w.toAlts(y.(Ptr))
		xv = w.toAlts(xv)
		if xv.alts == nil && yv.alts == nil {
			return b.Bool(xv.p == yv.p)
		}
		if yv.alts == nil {
			var cs []*Term
			for _, a := range xv.alts {
				cs = append(cs, b.And(a.g, w.equal(a.p, yv)))
			}
			return b.Or(cs...)
		}
		if xv.alts == nil {
			return w.equal(yv, xv)
		}
		w.fail("comparison of two symbolic pointers")
	case SliceV:
		yv := y.(SliceV)
		if yv.s == nil {
			return b.Bool(xv.s == nil)
		}
		if xv.s == nil {
			return b.Bool(yv.s == nil)
		}
		w.fail("slice comparison")
	case *MapV:
		yv, _ := y.(*MapV)
		return b.Bool(xv == yv)
	case *FuncV:
		yv, _ := y.(*FuncV)
		if xv == nil || yv == nil {
			return b.Bool(xv == nil && yv == nil)
		}
		w.fail("func comparison")
	case IfaceV:
		yv := y.(IfaceV)
		if xv.t == nil || yv.t == nil {
			return b.Bool(xv.t == nil && yv.t == nil)
		}
		if !types.Identical(xv.t, yv.t) {
			return b.False
		}
		return w.equal(xv.v, yv.v)
	case StructV:
		yv := y.(StructV)
		cs := make([]*Term, len(xv))
		for i := range xv {
			cs[i] = w.equal(xv[i], yv[i])
		}
		return b.And(cs...)
	case ArrayV:
		yv := y.(ArrayV)
		cs := make([]*Term, len(xv))
		for i := range xv {
			cs[i] = w.equal(xv[i], yv[i])
		}
		return b.And(cs...)
	case OpaqueV:
		if yv, ok := y.(OpaqueV); ok {
			return b.Bool(xv == yv)
		}
		return b.False
	case nil:
		return b.Bool(y == nil)
	}
	w.fail("equal on %T/%T at %s", x, y, w.curPos())
	return nil
}

func (w *Worker) unop(ins *ssa.UnOp, x Value) Value {
	switch ins.Op {
	case token.MUL: // load
		p, ok := x.(Ptr)
		if !ok {
			w.fail("load through %T", x)
		}
		return w.loadTyped(p, ins.Type())
	case token.NOT:
		return w.B.Not(x.(*Term))
	case token.SUB:
		switch xv := x.(type) {
		case *Term:
			return w.B.Un(OpNeg, xv)
		case float64:
			return -xv
		}
	case token.XOR:
		return w.B.Un(OpNot, x.(*Term))
	case token.ARROW:
		ch, ok := x.(*ChanV)
		if !ok || ch == nil || len(ch.buf) == 0 {
			w.fail("channel receive would block / unsupported channel at %s", w.curPos())
		}
		v := ch.buf[0]
		w.journal = append(w.journal, jent{ch: ch, chOld: ch.buf})
		ch.buf = ch.buf[1:]
		if ins.CommaOk {
			return TupleV{v, w.B.True}
		}
		return v
	}
	w.fail("unop %s on %T", ins.Op, x)
	return nil
}

// loadTyped loads through p; handles reading a wider integer through a pointer
// to a narrower array element (little endian), as util.checkAscii does.
func (w *Worker) loadTyped(p Ptr, t types.Type) Value {
	if p.alts == nil && p.idx == nil && p.p != nil && isIntOrBool(t) {
		if cur, ok := (*p.p).(*Term); ok && cur.W != widthOf(t) && cur.W > 0 && widthOf(t) > cur.W {
			want := widthOf(t)
			n := want / cur.W
			if len(p.arr) < n {
				// Go would read past the end of the slice: out-of-bounds read
				w.oblige(w.B.False, "panic", "unsafe wide load past the end of the backing array", w.curPos())
				panic(pathEnd{kind: "panic", msg: "unsafe wide load out of bounds"})
			}
			var r *Term
			for i := n - 1; i >= 0; i-- {
				e, ok := p.arr[i].(*Term)
				if !ok || e.W != cur.W {
					w.fail("wide load over non-uniform cells")
				}
				if r == nil {
					r = e
				} else {
					r = w.B.Concat(r, e)
				}
			}
			return r
		}
	}
	return w.load(p)
}

// ---------- addressing ----------

func (w *Worker) fieldAddr(p Ptr, field int) Ptr {
	p = w.toAlts(p)
	if p.alts != nil {
		var alts []altPtr
		for _, a := range p.alts {
			if a.p.isNil() {
				w.oblige(w.B.Not(a.g), "panic", "nil pointer dereference (field address)", w.curPos())
				continue
			}
			alts = append(alts, altPtr{a.g, w.fieldAddr(a.p, field)})
		}
		if len(alts) == 0 {
			panic(pathEnd{kind: "panic", msg: "nil pointer dereference"})
		}
		return Ptr{alts: alts}
	}
	if p.p == nil {
		w.panicNow("nil pointer dereference (field address)")
	}
	s, ok := (*p.p).(StructV)
	if !ok {
		w.fail("fieldAddr on %T at %s", *p.p, w.curPos())
	}
	return Ptr{p: &s[field]}
}

// elemPtr builds a pointer to element idx (possibly symbolic) of elems; the
// bounds check is emitted as an obligation.
func (w *Worker) elemPtr(elems []Value, backing []Value, idx *Term) Ptr {
	n := len(elems)
	if idx.IsConst() {
		i := sext64(idx.Val, idx.W)
		if i < 0 || i >= int64(n) {
			w.panicNow(fmt.Sprintf("index out of range [%d] with length %d", i, n))
		}
		return Ptr{p: &elems[i], arr: backing[i:]}
	}
	if w.concreteVec != nil {
		w.fail("symbolic index in concrete mode")
	}
	idx64 := idx
	if idx.W < 64 {
		idx64 = w.B.ZExt(idx, 64)
	}
	inb := w.B.Cmp(OpUlt, idx64, w.B.Const(uint64(n), 64))
	w.oblige(inb, "panic", "index out of range", w.curPos())
	if n == 0 {
		panic(pathEnd{kind: "panic", msg: "index out of range (empty)"})
	}
	lo, hi := idx64.Range()
	dom := idx64.Domain()
	var cand []int
	for i := 0; i < n; i++ {
		if uint64(i) < lo || uint64(i) > hi {
			continue
		}
		if dom != nil && !inDom(dom, uint64(i)) {
			continue
		}
		g := w.B.Eq(idx64, w.B.Const(uint64(i), 64))
		if g.IsFalse() {
			continue
		}
		if v, ok := w.lookupKnown(g); ok {
			if !v {
				continue
			}
			return Ptr{p: &elems[i], arr: backing[i:]}
		}
		cand = append(cand, i)
	}
	if len(cand) == 0 {
		panic(pathEnd{kind: "panic", msg: "index out of range (no candidates)"})
	}
	if len(cand) == 1 {
		return Ptr{p: &elems[cand[0]], arr: backing[cand[0]:]}
	}
	w.st.symIdx++
	return Ptr{idx: idx64, cells: elems, back: backing, cand: cand}
}

func (w *Worker) index64(idx *Term, t types.Type) *Term {
	if idx.W < 64 {
		if isSigned(t) {
			return w.B.SExt(idx, 64)
		}
		return w.B.ZExt(idx, 64)
	}
	return idx
}

func (w *Worker) indexAddr(fr *frame, ins *ssa.IndexAddr) Ptr {
	x := w.get(fr, ins.X)
	idx := w.index64(w.get(fr, ins.Index).(*Term), ins.Index.Type())
	switch xv := x.(type) {
	case SliceV:
		return w.elemPtr(xv.s, xv.s[:cap(xv.s)], idx)
	case Ptr: // *array
		xv = w.toAlts(xv)
		if xv.alts != nil {
			var alts []altPtr
			for _, a := range xv.alts {
				arr := (*a.p.p).(ArrayV)
				p := w.toAlts(w.elemPtr(arr, arr, idx))
				if p.alts != nil {
					for _, q := range p.alts {
						alts = append(alts, altPtr{w.B.And(a.g, q.g), q.p})
					}
				} else {
					alts = append(alts, altPtr{a.g, p})
				}
			}
			return Ptr{alts: alts}
		}
		if xv.p == nil {
			w.panicNow("nil pointer dereference (index)")
		}
		arr, ok := (*xv.p).(ArrayV)
		if !ok {
			w.fail("indexAddr through pointer to %T", *xv.p)
		}
		return w.elemPtr(arr, arr, idx)
	}
	w.fail("indexAddr on %T", x)
	return Ptr{}
}

func (w *Worker) indexOp(fr *frame, ins *ssa.Index) Value {
	x := w.get(fr, ins.X)
	idx := w.index64(w.get(fr, ins.Index).(*Term), ins.Index.Type())
	switch xv := x.(type) {
	case ArrayV:
		return w.load(w.elemPtr(xv, xv, idx))
	case StrV:
		return w.strIndex(xv, idx)
	}
	w.fail("index on %T", x)
	return nil
}

func (w *Worker) strIndex(s StrV, idx *Term) Value {
	elems := make([]Value, len(s.b))
	for i, t := range s.b {
		elems[i] = t
	}
	return w.load(w.elemPtr(elems, elems, idx))
}

func (w *Worker) lookup(fr *frame, ins *ssa.Lookup) Value {
	x := w.get(fr, ins.X)
	switch xv := x.(type) {
	case StrV:
		idx := w.index64(w.get(fr, ins.Index).(*Term), ins.Index.Type())
		return w.strIndex(xv, idx)
	case *MapV:
		v, ok := w.mapLookup(xv, w.get(fr, ins.Index), ins.X.Type().Underlying().(*types.Map).Elem())
		if ins.CommaOk {
			return TupleV{v, ok}
		}
		return v
	}
	w.fail("lookup on %T", x)
	return nil
}

func (w *Worker) sliceOp(fr *frame, ins *ssa.Slice) Value {
	x := w.get(fr, ins.X)
	bound := func(v ssa.Value, def int) int {
		if v == nil {
			return def
		}
		return w.concInt(w.get(fr, v).(*Term), "slice bound")
	}
	switch xv := x.(type) {
	case StrV:
		lo := bound(ins.Low, 0)
		hi := bound(ins.High, len(xv.b))
		if lo < 0 || hi < lo || hi > len(xv.b) {
			w.panicNow(fmt.Sprintf("slice bounds out of range [%d:%d] with length %d", lo, hi, len(xv.b)))
		}
		return StrV{xv.b[lo:hi]}
	case SliceV:
		lo := bound(ins.Low, 0)
		hi := bound(ins.High, len(xv.s))
		mx := bound(ins.Max, cap(xv.s))
		if lo < 0 || hi < lo || mx < hi || mx > cap(xv.s) {
			w.panicNow(fmt.Sprintf("slice bounds out of range [%d:%d:%d] with capacity %d", lo, hi, mx, cap(xv.s)))
		}
		if xv.s == nil {
			return SliceV{}
		}
		return SliceV{s: xv.s[lo:hi:mx]}
	case Ptr:
		if xv.p == nil {
			w.panicNow("nil pointer dereference (slice of array)")
		}
		arr := (*xv.p).(ArrayV)
		lo := bound(ins.Low, 0)
		hi := bound(ins.High, len(arr))
		mx := bound(ins.Max, len(arr))
		if lo < 0 || hi < lo || mx < hi || mx > len(arr) {
			w.panicNow("slice bounds out of range (array)")
		}
		return SliceV{s: []Value(arr)[lo:hi:mx]}
	}
	w.fail("slice of %T", x)
	return nil
}

// ---------- maps ----------

func (w *Worker) mapLookup(m *MapV, k Value, vt types.Type) (rv Value, rf *Term) {
	zero := w.zero(vt)
	if w.inMerge == 0 {
		defer func() {
			if r := recover(); r != nil {
				if _, ok := r.(mergeAbort); !ok {
					panic(r)
				}
				// values that cannot be merged: fork on the key instead
				for _, e := range m.entries {
					eq := w.equal(e.k, k)
					if eq.IsFalse() {
						continue
					}
					if eq.IsTrue() || w.decide(eq) {
						rv, rf = copyVal(e.v), w.B.True
						return
					}
				}
				rv, rf = zero, w.B.False
			}
		}()
	}
	if m == nil {
		return zero, w.B.False
	}
	r := zero
	found := w.B.False
	// later entries never duplicate earlier keys (insert forks on equality), so order is irrelevant
	for i := len(m.entries) - 1; i >= 0; i-- {
		e := m.entries[i]
		eq := w.equal(e.k, k)
		if eq.IsFalse() {
			continue
		}
		if eq.IsTrue() {
			return copyVal(e.v), w.B.True
		}
		r = w.ite(eq, e.v, r)
		found = w.B.Or(eq, found)
	}
	return r, found
}

func (w *Worker) mapUpdate(m *MapV, k, v Value) {
	if m == nil {
		w.panicNow("assignment to entry in nil map")
	}
	for i, e := range m.entries {
		eq := w.equal(e.k, k)
		if eq.IsFalse() {
			continue
		}
		if eq.IsTrue() || w.decide(eq) {
			ne := append([]mapEntry{}, m.entries...)
			ne[i] = mapEntry{e.k, copyVal(v)}
			w.setEntries(m, ne)
			return
		}
	}
	ne := append(append([]mapEntry{}, m.entries...), mapEntry{k, copyVal(v)})
	w.setEntries(m, ne)
}

func (w *Worker) mapDelete(m *MapV, k Value) {
	if m == nil {
		return
	}
	for i, e := range m.entries {
		eq := w.equal(e.k, k)
		if eq.IsFalse() {
			continue
		}
		if eq.IsTrue() || w.decide(eq) {
			ne := append([]mapEntry{}, m.entries[:i]...)
			ne = append(ne, m.entries[i+1:]...)
			w.setEntries(m, ne)
			return
		}
	}
}

func (w *Worker) setEntries(m *MapV, ne []mapEntry) {
	if w.inMerge > 0 {
		panic(mergeAbort{"map update in merged region"})
	}
	if !w.inInit {
		w.journal = append(w.journal, jent{m: m, me: m.entries})
	}
	m.entries = ne
}

// ---------- range ----------

func (w *Worker) rangeIter(x Value) Value {
	switch xv := x.(type) {
	case StrV:
		return &IterV{str: &xv}
	case *MapV:
		if xv == nil {
			return &IterV{isMap: true}
		}
		ents := append([]mapEntry{}, xv.entries...)
		if w.job.MapOrder && len(ents) > 1 {
			// iteration order is unspecified in Go: every permutation is an input
			perm := make([]mapEntry, 0, len(ents))
			rest := ents
			for len(rest) > 1 {
				k := int(w.choose(0, int64(len(rest)-1)))
				perm = append(perm, rest[k])
				rest = append(append([]mapEntry{}, rest[:k]...), rest[k+1:]...)
			}
			perm = append(perm, rest[0])
			ents = perm
		}
		return &IterV{m: ents, isMap: true}
	}
	w.fail("range over %T", x)
	return nil
}

func (w *Worker) next(it *IterV, ins *ssa.Next) Value {
	b := w.B
	if it.isMap {
		if it.pos >= len(it.m) {
			tt := ins.Type().(*types.Tuple)
			return TupleV{b.False, w.zero(tt.At(1).Type()), w.zero(tt.At(2).Type())}
		}
		e := it.m[it.pos]
		it.pos++
		return TupleV{b.True, e.k, copyVal(e.v)}
	}
	s := it.str.b
	if it.pos >= len(s) {
		return TupleV{b.False, b.Const(0, 64), b.Const(0, 32)}
	}
	i := it.pos
	r, size := w.decodeRune(s[i:])
	it.pos += size
	return TupleV{b.True, b.Const(uint64(i), 64), r}
}

// decodeRune decodes the first UTF-8 sequence of s (symbolic bytes), forking on its shape.
func (w *Worker) decodeRune(s []*Term) (*Term, int) {
	allConst := true
	lim := len(s)
	if lim > 4 {
		lim = 4
	}
	buf := make([]byte, lim)
	for i := 0; i < lim; i++ {
		if !s[i].IsConst() {
			allConst = false
			break
		}
		buf[i] = byte(s[i].Val)
	}
	if allConst {
		r, sz := utf8.DecodeRune(buf)
		return w.B.Const(uint64(r), 32), sz
	}
	// symbolic: run the real utf8.DecodeRune on a byte slice through the engine
	fn := w.P.funcByName("unicode/utf8", "DecodeRune")
	elems := make([]Value, len(s))
	for i := range s {
		elems[i] = s[i]
	}
	res := w.call(&FuncV{fn: fn}, []Value{SliceV{s: elems}}, nil).(TupleV)
	r := res[0].(*Term)
	sz := w.concInt(res[1].(*Term), "rune size")
	return r, sz
}

// ---------- type assertion ----------

func (w *Worker) typeAssert(ins *ssa.TypeAssert, x IfaceV) Value {
	ok := false
	if x.t != nil {
		if it, isIface := ins.AssertedType.Underlying().(*types.Interface); isIface {
			ok = types.Implements(x.t, it)
		} else {
			ok = types.Identical(x.t, ins.AssertedType)
		}
	}
	var v Value
	if ok {
		if _, isIface := ins.AssertedType.Underlying().(*types.Interface); isIface {
			v = x
		} else {
			v = x.v
		}
	}
	if ins.CommaOk {
		if !ok {
			v = w.zero(ins.AssertedType)
		}
		return TupleV{v, w.B.Bool(ok)}
	}
	if !ok {
		w.panicNow("interface conversion: type assertion failed")
	}
	return v
}

// ---------- conversions ----------

func (w *Worker) conv(dst, src types.Type, x Value) Value {
	b := w.B
	du, su := dst.Underlying(), src.Underlying()
	// unsafe.Pointer and pointer conversions: identity
	if _, ok := du.(*types.Pointer); ok {
		return x
	}
	if db, ok := du.(*types.Basic); ok && db.Kind() == types.UnsafePointer {
		return x
	}
	switch xv := x.(type) {
	case *Term:
		if isIntOrBool(du) {
			return b.Resize(xv, widthOf(du), isSigned(su))
		}
		if isFloat(du) {
			if !xv.IsConst() {
				w.fail("int→float of symbolic value")
			}
			if isSigned(su) {
				return float64(sext64(xv.Val, xv.W))
			}
			return float64(xv.Val)
		}
		if isString(du) {
			// string(rune)
			r := b.Resize(xv, 32, isSigned(su))
			var rv rune
			if r.IsConst() {
				rv = rune(int32(r.Val))
				if xv.W == 64 && sext64(xv.Val, 64) != int64(rv) {
					rv = utf8.RuneError
				}
			} else {
				rv = rune(int32(w.concretize(r, "string(rune)")))
			}
			return w.strConst(string(rv))
		}
	case float64:
		if isFloat(du) {
			if du.(*types.Basic).Kind() == types.Float32 {
				return float64(float32(xv))
			}
			return xv
		}
		if isIntOrBool(du) {
			if isSigned(du) {
				return b.Const(uint64(int64(xv)), widthOf(du))
			}
			return b.Const(uint64(xv), widthOf(du))
		}
	case StrV:
		if isString(du) {
			return x
		}
		if ds, ok := du.(*types.Slice); ok {
			eb := ds.Elem().Underlying().(*types.Basic)
			if eb.Kind() == types.Uint8 {
				s := make([]Value, len(xv.b))
				for i, t := range xv.b {
					s[i] = t
				}
				return SliceV{s: s}
			}
			if eb.Kind() == types.Int32 {
				var out []Value
				out = []Value{}
				for i := 0; i < len(xv.b); {
					r, sz := w.decodeRune(xv.b[i:])
					out = append(out, r)
					i += sz
				}
				return SliceV{s: out}
			}
		}
	case SliceV:
		if isString(du) {
			eb := su.(*types.Slice).Elem().Underlying().(*types.Basic)
			if eb.Kind() == types.Uint8 {
				r := make([]*Term, len(xv.s))
				for i, v := range xv.s {
					r[i] = v.(*Term)
				}
				return StrV{r}
			}
			if eb.Kind() == types.Int32 {
				var out []*Term
				for _, v := range xv.s {
					out = append(out, w.encodeRune(v.(*Term))...)
				}
				return StrV{out}
			}
		}
		if _, ok := du.(*types.Slice); ok {
			return x
		}
	}
	if types.Identical(du, su) {
		return x
	}
	w.fail("conversion %s → %s of %T at %s", src, dst, x, w.curPos())
	return nil
}

// encodeRune gives the UTF-8 bytes of r, forking on the encoded length when symbolic.
func (w *Worker) encodeRune(r *Term) []*Term {
	b := w.B
	if r.IsConst() {
		return w.strConst(string(rune(int32(r.Val)))).b
	}
	if d := r.Domain(); d != nil {
		// finite domain: group by encoded length, fork on the length, then mux the bytes
		lens := map[int]bool{}
		for _, v := range d {
			lens[len(string(rune(int32(v))))] = true
		}
		var ln int
		if len(lens) == 1 {
			for l := range lens {
				ln = l
			}
		} else {
			// choose length by decision
			for l := 1; l <= 4; l++ {
				if !lens[l] {
					continue
				}
				var cs []*Term
				for _, v := range d {
					if len(string(rune(int32(v)))) == l {
						cs = append(cs, b.Eq(r, b.Const(v, 32)))
					}
				}
				if w.decide(b.Or(cs...)) {
					ln = l
					break
				}
			}
			if ln == 0 {
				panic(pathEnd{kind: "infeasible"})
			}
		}
		out := make([]*Term, ln)
		for i := range out {
			var t *Term
			for _, v := range d {
				s := string(rune(int32(v)))
				if len(s) != ln {
					continue
				}
				c := b.Const(uint64(s[i]), 8)
				if t == nil {
					t = c
				} else {
					t = b.Ite(b.Eq(r, b.Const(v, 32)), c, t)
				}
			}
			out[i] = t
		}
		return out
	}
	v := rune(int32(w.concretize(r, "rune encoding")))
	return w.strConst(string(v)).b
}

// ---------- builtins ----------

func (w *Worker) callBuiltin(fn *ssa.Builtin, args []Value, site ssa.CallInstruction) Value {
	b := w.B
	switch fn.Name() {
	case "len":
		switch x := args[0].(type) {
		case StrV:
			return b.Const(uint64(len(x.b)), 64)
		case SliceV:
			return b.Const(uint64(len(x.s)), 64)
		case ArrayV:
			return b.Const(uint64(len(x)), 64)
		case *MapV:
			if x == nil {
				return b.Const(0, 64)
			}
			return b.Const(uint64(len(x.entries)), 64)
		case Ptr:
			return b.Const(uint64(len((*x.p).(ArrayV))), 64)
		case *ChanV:
			if x == nil {
				return b.Const(0, 64)
			}
			return b.Const(uint64(len(x.buf)), 64)
		}
	case "cap":
		switch x := args[0].(type) {
		case SliceV:
			return b.Const(uint64(cap(x.s)), 64)
		case ArrayV:
			return b.Const(uint64(len(x)), 64)
		case Ptr:
			return b.Const(uint64(len((*x.p).(ArrayV))), 64)
		}
	case "append":
		s := args[0].(SliceV)
		var add []Value
		switch y := args[1].(type) {
		case SliceV:
			add = y.s
		case StrV:
			for _, t := range y.b {
				add = append(add, t)
			}
		}
		if len(add) == 0 {
			return s
		}
		n := len(s.s)
		if n+len(add) <= cap(s.s) {
			ns := s.s[:n+len(add)]
			// copy handles overlap like memmove
			tmp := make([]Value, len(add))
			for i := range add {
				tmp[i] = copyVal(add[i])
			}
			for i := range tmp {
				w.storeInto(&ns[n+i], tmp[i])
			}
			return SliceV{s: ns}
		}
		var et types.Type
		if site != nil {
			et = site.Common().Args[0].Type().Underlying().(*types.Slice).Elem()
		}
		newcap := growCap(cap(s.s), n, len(add), w.P.sizeof(et))
		ns := make([]Value, n+len(add), newcap)
		for i := 0; i < n; i++ {
			ns[i] = copyVal(s.s[i])
		}
		for i := range add {
			ns[n+i] = copyVal(add[i])
		}
		full := ns[:newcap]
		for i := n + len(add); i < newcap; i++ {
			full[i] = w.zero(et)
		}
		return SliceV{s: ns}
	case "copy":
		dst := args[0].(SliceV)
		var src []Value
		switch y := args[1].(type) {
		case SliceV:
			src = y.s
		case StrV:
			for _, t := range y.b {
				src = append(src, t)
			}
		}
		n := len(dst.s)
		if len(src) < n {
			n = len(src)
		}
		tmp := make([]Value, n)
		for i := 0; i < n; i++ {
			tmp[i] = copyVal(src[i])
		}
		for i := 0; i < n; i++ {
			w.storeInto(&dst.s[i], tmp[i])
		}
		return b.Const(uint64(n), 64)
	case "delete":
		w.mapDelete(args[0].(*MapV), args[1])
		return nil
	case "panic":
		w.panicNow("panic: " + w.describe(args[0]))
	case "print", "println":
		return nil
	case "min", "max":
		r := args[0].(*Term)
		signed := true
		if site != nil {
			signed = isSigned(site.Common().Args[0].Type())
		}
		for _, a := range args[1:] {
			y := a.(*Term)
			var c *Term
			if signed {
				c = b.Cmp(OpSlt, y, r)
			} else {
				c = b.Cmp(OpUlt, y, r)
			}
			if fn.Name() == "max" {
				c = b.Not(b.Or(c, b.Eq(y, r)))
				// c: y > r
				r = b.Ite(c, y, r)
			} else {
				r = b.Ite(c, y, r)
			}
		}
		return r
	case "clear":
		switch x := args[0].(type) {
		case *MapV:
			if x != nil {
				w.setEntries(x, nil)
			}
			return nil
		}
	case "recover":
		return IfaceV{}
	case "ssa:wrapnilchk":
		return args[0]
	}
	// unsafe builtins
	switch fn.Name() {
	case "String": // unsafe.String(ptr, len)
		p := args[0].(Ptr)
		n := w.concInt(args[1].(*Term), "unsafe.String len")
		if n == 0 {
			return StrV{}
		}
		if len(p.arr) < n {
			w.fail("unsafe.String beyond backing array")
		}
		r := make([]*Term, n)
		for i := 0; i < n; i++ {
			r[i] = p.arr[i].(*Term)
		}
		return StrV{r}
	case "SliceData":
		s := args[0].(SliceV)
		if cap(s.s) == 0 {
			return Ptr{}
		}
		full := s.s[:cap(s.s)]
		return Ptr{p: &full[0], arr: full}
	case "StringData":
		s := args[0].(StrV)
		elems := make([]Value, len(s.b))
		for i, t := range s.b {
			elems[i] = t
		}
		if len(elems) == 0 {
			return Ptr{}
		}
		return Ptr{p: &elems[0], arr: elems}
	case "Slice": // unsafe.Slice(ptr, len)
		p := args[0].(Ptr)
		n := w.concInt(args[1].(*Term), "unsafe.Slice len")
		if p.isNil() {
			return SliceV{}
		}
		if len(p.arr) < n {
			w.fail("unsafe.Slice beyond backing array")
		}
		return SliceV{s: p.arr[:n:n]}
	}
	w.fail("builtin %s on %T at %s", fn.Name(), args[0], w.curPos())
	return nil
}

// growCap reproduces the runtime's append growth by performing the same append natively.
func growCap(oldCap, oldLen, add int, elemSize int64) int {
	if elemSize <= 0 {
		elemSize = 8
	}
	at := reflect.ArrayOf(int(elemSize), reflect.TypeOf(byte(0)))
	st := reflect.SliceOf(at)
	s := reflect.MakeSlice(st, oldLen, oldCap)
	extra := reflect.MakeSlice(st, add, add)
	s = reflect.AppendSlice(s, extra)
	return s.Cap()
}
