package main

import (
	"strings"
	"fmt"
	"go/types"
	"unicode"
	"unicode/utf8"

	"golang.org/x/tools/go/ssa"
)

type intrinsic func(w *Worker, fn *ssa.Function, args []Value, site ssa.CallInstruction) Value

const zz = modPath + "/src/zzv."

var intrinsics map[string]intrinsic

// real function -> model function in package zzv
var redirects = map[string]string{
	"internal/bytealg.IndexByte":           "M_bytealg_IndexByte",
	"internal/bytealg.IndexByteString":     "M_bytealg_IndexByteString",
	"internal/bytealg.LastIndexByte":       "M_bytealg_LastIndexByte",
	"internal/bytealg.LastIndexByteString": "M_bytealg_LastIndexByteString",
	"internal/bytealg.Count":               "M_bytealg_Count",
	"internal/bytealg.CountString":         "M_bytealg_CountString",
	"internal/bytealg.Compare":             "M_bytealg_Compare",
	"internal/bytealg.Equal":               "M_bytealg_Equal",
	"strings.Index":                        "M_strings_Index",
	"bytes.Index":                          "M_bytes_Index",
	"strings.LastIndex":                    "M_strings_LastIndex",
	"strings.Count":                        "M_strings_Count",
	"os.ReadFile":                          "M_os_ReadFile",
	"os.WriteFile":                         "M_os_WriteFile",
	"os.Remove":                            "M_os_Remove",
	"os.IsNotExist":                        "M_os_IsNotExist",
	"os.IsPermission":                      "M_os_IsPermission",
	"errors.Is":                            "M_errors_Is",
}

// which intrinsics may run inside merged regions
var intrinsicMergeSafe = map[string]bool{}

func init() {
	intrinsics = map[string]intrinsic{
		zz + "Byte":    func(w *Worker, _ *ssa.Function, _ []Value, _ ssa.CallInstruction) Value { return w.newNondet("byte", 8) },
		zz + "Bool":    func(w *Worker, _ *ssa.Function, _ []Value, _ ssa.CallInstruction) Value { return w.newNondet("bool", 0) },
		zz + "Int":     func(w *Worker, _ *ssa.Function, _ []Value, _ ssa.CallInstruction) Value { return w.newNondet("int", 64) },
		zz + "Int16":   func(w *Worker, _ *ssa.Function, _ []Value, _ ssa.CallInstruction) Value { return w.newNondet("int", 16) },
		zz + "Int32":   func(w *Worker, _ *ssa.Function, _ []Value, _ ssa.CallInstruction) Value { return w.newNondet("int", 32) },
		zz + "Uint16":  func(w *Worker, _ *ssa.Function, _ []Value, _ ssa.CallInstruction) Value { return w.newNondet("uint", 16) },
		zz + "Uint32":  func(w *Worker, _ *ssa.Function, _ []Value, _ ssa.CallInstruction) Value { return w.newNondet("uint", 32) },
		zz + "Uint64":  func(w *Worker, _ *ssa.Function, _ []Value, _ ssa.CallInstruction) Value { return w.newNondet("uint", 64) },
		zz + "Byte7": func(w *Worker, _ *ssa.Function, _ []Value, _ ssa.CallInstruction) Value {
			if w.concreteVec != nil {
				return w.B.Const(uint64(w.newNondet("byte7", 8).Val&0x7f), 8)
			}
			return w.B.ZExt(w.newNondet("byte7", 7), 8)
		},
		// Below(n): symbolic int in [0,n), n concrete
		zz + "Below": func(w *Worker, _ *ssa.Function, args []Value, _ ssa.CallInstruction) Value {
			n := w.concInt(args[0].(*Term), "Below bound")
			if n <= 0 {
				w.fail("Below(%d)", n)
			}
			if n == 1 {
				// still consume a vector slot for replay alignment
				w.nondet = append(w.nondet, ndEntry{kind: "below", t: w.B.Const(0, 8)})
				if w.concreteVec != nil {
					w.nextConcrete()
				}
				return w.B.Const(0, 64)
			}
			bits := 1
			for (1 << uint(bits)) < n {
				bits++
			}
			if w.concreteVec != nil {
				v := w.newNondet("below", 64)
				if int(v.Val) >= n {
					panic(pathEnd{kind: "pruned"})
				}
				return v
			}
			v := w.B.ZExt(w.newNondet("below", bits), 64)
			if (1 << uint(bits)) != n {
				w.assume(w.B.Cmp(OpUlt, v, w.B.Const(uint64(n), 64)))
			}
			return v
		},
		zz + "Choose": func(w *Worker, _ *ssa.Function, args []Value, _ ssa.CallInstruction) Value {
			lo := int64(w.concInt(args[0].(*Term), "Choose lo"))
			hi := int64(w.concInt(args[1].(*Term), "Choose hi"))
			if hi < lo {
				panic(pathEnd{kind: "pruned"})
			}
			return w.B.Const(uint64(w.choose(lo, hi)), 64)
		},
		zz + "Assume": func(w *Worker, _ *ssa.Function, args []Value, _ ssa.CallInstruction) Value {
			w.assume(args[0].(*Term))
			return nil
		},
		zz + "Assert": func(w *Worker, _ *ssa.Function, args []Value, _ ssa.CallInstruction) Value {
			id, _ := concreteStr(args[0].(StrV))
			w.oblige(args[1].(*Term), "assert", id, w.callerPos())
			return nil
		},
		zz + "Reach": func(w *Worker, _ *ssa.Function, args []Value, _ ssa.CallInstruction) Value {
			id, _ := concreteStr(args[0].(StrV))
			w.reached = append(w.reached, id)
			return nil
		},
		zz + "Observe": func(w *Worker, _ *ssa.Function, args []Value, _ ssa.CallInstruction) Value {
			id, _ := concreteStr(args[0].(StrV))
			t := args[1].(*Term)
			if w.concreteVec != nil {
				w.obs = append(w.obs, fmt.Sprintf("%s=%d", id, sext64(t.Val, t.W)))
			}
			return nil
		},
		zz + "CfgInt": func(w *Worker, _ *ssa.Function, args []Value, _ ssa.CallInstruction) Value {
			name, _ := concreteStr(args[0].(StrV))
			v, ok := w.job.Cfg[name]
			if !ok {
				w.fail("config value %q missing", name)
			}
			return w.B.Const(uint64(int64(v)), 64)
		},
		zz + "CfgBool": func(w *Worker, _ *ssa.Function, args []Value, _ ssa.CallInstruction) Value {
			name, _ := concreteStr(args[0].(StrV))
			v, ok := w.job.Cfg[name]
			if !ok {
				w.fail("config value %q missing", name)
			}
			return w.B.Bool(v != 0)
		},
		zz + "CfgStr": func(w *Worker, _ *ssa.Function, args []Value, _ ssa.CallInstruction) Value {
			name, _ := concreteStr(args[0].(StrV))
			v, ok := w.job.CfgS[name]
			if !ok {
				w.fail("config string %q missing", name)
			}
			return w.strConst(v)
		},
		zz + "scratchPath": func(w *Worker, _ *ssa.Function, args []Value, _ ssa.CallInstruction) Value {
			tag, _ := concreteStr(args[0].(StrV))
			return w.strConst("/zzv/" + tag)
		},
		zz + "Symbolic": func(w *Worker, _ *ssa.Function, args []Value, _ ssa.CallInstruction) Value {
			return w.B.Bool(true)
		},

		// sync: single-threaded model, critical sections are atomic by construction
		"(*sync.Mutex).Lock":      nop,
		"(*sync.Mutex).Unlock":    nop,
		"(*sync.Mutex).TryLock":   func(w *Worker, _ *ssa.Function, _ []Value, _ ssa.CallInstruction) Value { return w.B.True },
		"(*sync.RWMutex).Lock":    nop,
		"(*sync.RWMutex).Unlock":  nop,
		"(*sync.RWMutex).RLock":   nop,
		"(*sync.RWMutex).RUnlock": nop,
		"(*sync.Cond).Broadcast":  condWake,
		"(*sync.Cond).Signal":     condWake,
		"(*sync.Cond).Wait":       condWait,
		"runtime.NumCPU": func(w *Worker, _ *ssa.Function, _ []Value, _ ssa.CallInstruction) Value { return w.B.Const(2, 64) },
		zz + "RunUntilIdle": func(w *Worker, _ *ssa.Function, _ []Value, _ ssa.CallInstruction) Value {
			w.runUntilIdle()
			return nil
		},
		"(*sync.WaitGroup).Add":   nop,
		"(*sync.WaitGroup).Done":  nop,
		"(*sync.WaitGroup).Wait":  nop,
		"(*strings.Builder).copyCheck": nop,
		"internal/abi.NoEscape": func(w *Worker, _ *ssa.Function, args []Value, _ ssa.CallInstruction) Value { return args[0] },
		"internal/abi.Escape":   func(w *Worker, _ *ssa.Function, args []Value, _ ssa.CallInstruction) Value { return args[0] },
		"internal/bytealg.MakeNoZero": func(w *Worker, _ *ssa.Function, args []Value, _ ssa.CallInstruction) Value {
			n := w.concInt(args[0].(*Term), "MakeNoZero")
			s := make([]Value, n)
			for i := range s {
				s[i] = w.B.Const(0, 8)
			}
			return SliceV{s: s}
		},
		"sync/atomic.StoreInt32": atomicStore,
		"sync/atomic.StoreInt64": atomicStore,
		"sync/atomic.StoreUint32": atomicStore,
		"sync/atomic.LoadInt32":  atomicLoad,
		"sync/atomic.LoadInt64":  atomicLoad,
		"sync/atomic.LoadUint32": atomicLoad,
		"sync/atomic.AddInt32":   atomicAdd,
		"sync/atomic.AddInt64":   atomicAdd,
		"sync/atomic.CompareAndSwapInt32": atomicCAS,
		"sync/atomic.CompareAndSwapInt64": atomicCAS,
		"regexp.MustCompile": func(w *Worker, _ *ssa.Function, args []Value, _ ssa.CallInstruction) Value {
			pat, ok := concreteStr(args[0].(StrV))
			if !ok {
				w.fail("regexp.MustCompile of symbolic pattern")
			}
			return OpaqueV{"regexp:" + pat}
		},
		"(*regexp.Regexp).Split": func(w *Worker, _ *ssa.Function, args []Value, _ ssa.CallInstruction) Value {
			re, ok := args[0].(OpaqueV)
			if !ok || re.desc != "regexp: +" {
				w.fail("regexp Split: only the literal pattern \" +\" is modelled (got %v)", args[0])
			}
			n := args[2].(*Term)
			if !n.IsConst() || sext64(n.Val, 64) != -1 {
				w.fail("regexp Split: only n = -1 is modelled")
			}
			fn := w.P.funcByName(modPath+"/src/zzv", "M_regexp_SplitSpaces")
			return w.call(&FuncV{fn: fn}, []Value{args[1]}, nil)
		},
		"strings.NewReplacer": func(w *Worker, _ *ssa.Function, args []Value, _ ssa.CallInstruction) Value {
			return args[0] // the old/new pairs; consumed by the Replace intrinsic
		},
		"(*strings.Replacer).Replace": func(w *Worker, _ *ssa.Function, args []Value, _ ssa.CallInstruction) Value {
			pairs, ok := args[0].(SliceV)
			if !ok {
				w.fail("Replacer.Replace on a replacer not built by strings.NewReplacer")
			}
			for _, p := range pairs.s {
				if sv, ok := p.(StrV); !ok || len(sv.b) == 0 && false {
					w.fail("Replacer pairs")
				}
			}
			fn := w.P.funcByName(modPath+"/src/zzv", "M_Replacer_Replace")
			return w.call(&FuncV{fn: fn}, []Value{pairs, args[1]}, nil)
		},
		"os.Getenv": func(w *Worker, _ *ssa.Function, args []Value, _ ssa.CallInstruction) Value {
			name, _ := concreteStr(args[0].(StrV))
			return w.strConst(w.job.CfgS["env:"+name])
		},
		"os.LookupEnv": func(w *Worker, _ *ssa.Function, args []Value, _ ssa.CallInstruction) Value {
			name, _ := concreteStr(args[0].(StrV))
			v, ok := w.job.CfgS["env:"+name]
			return TupleV{w.strConst(v), w.B.Bool(ok)}
		},
		zz + "Freeze": func(w *Worker, _ *ssa.Function, args []Value, _ ssa.CallInstruction) Value {
			tag, _ := concreteStr(args[0].(StrV))
			if w.frozen == nil {
				w.frozen = map[string]Value{}
			}
			w.frozen[tag] = copyAggregate(*w.frozenTarget(args[1]))
			return nil
		},
		zz + "Unchanged": func(w *Worker, _ *ssa.Function, args []Value, _ ssa.CallInstruction) Value {
			tag, _ := concreteStr(args[0].(StrV))
			old, ok := w.frozen[tag]
			if !ok {
				w.fail("zzv.Unchanged(%q) without Freeze", tag)
			}
			return w.sameShallow(old, *w.frozenTarget(args[1]))
		},
		zz + "FSMkdir":     nop,
		zz + "FSTouch":     nop,
		zz + "FSSymlink":   nop,
		zz + "FSEnterTemp": nop,
		zz + "FakeCommand": func(w *Worker, _ *ssa.Function, _ []Value, _ ssa.CallInstruction) Value { return w.strConst("") },
		"os.OpenFile": func(w *Worker, _ *ssa.Function, args []Value, site ssa.CallInstruction) Value {
			name, ok := concreteStr(args[0].(StrV))
			flag := args[1].(*Term)
			if !ok || !flag.IsConst() {
				w.fail("os.OpenFile with a symbolic name or flag")
			}
			const oAppend, oTrunc, oCreate, oAcc = 0x400, 0x200, 0x40, 0x3
			fl := int(flag.Val)
			if fl&oAcc == 0 {
				w.fail("os.OpenFile for reading is not modelled")
			}
			_, existed := w.vfsHas(name)
			fn := w.P.funcByName(modPath+"/src/zzv", "M_os_OpenFileCheck")
			err := w.call(&FuncV{fn: fn}, []Value{args[0], args[1]}, site)
			if iv, isI := err.(IfaceV); isI && iv.t != nil {
				return TupleV{Ptr{}, err}
			}
			if fl&oAppend == 0 && fl&oTrunc == 0 && existed {
				w.fail("os.OpenFile: writing into an existing file without O_APPEND or O_TRUNC is not modelled")
			}
			return TupleV{OpaqueV{"osfile:" + name}, IfaceV{}}
		},
		"(*os.File).WriteString": func(w *Worker, _ *ssa.Function, args []Value, site ssa.CallInstruction) Value {
			return w.fileAppend(args[0], w.strToBytes(args[1].(StrV)), site)
		},
		"(*os.File).Write": func(w *Worker, _ *ssa.Function, args []Value, site ssa.CallInstruction) Value {
			return w.fileAppend(args[0], args[1], site)
		},
		"(*os.File).Close": func(w *Worker, _ *ssa.Function, args []Value, _ ssa.CallInstruction) Value {
			return IfaceV{}
		},
		"os.Getwd": func(w *Worker, _ *ssa.Function, _ []Value, _ ssa.CallInstruction) Value {
			return TupleV{w.strConst("/"), IfaceV{}}
		},
		"os.Setenv": func(w *Worker, _ *ssa.Function, args []Value, _ ssa.CallInstruction) Value {
			return IfaceV{} // environment comes from the job configuration (os.Getenv intrinsic)
		},
		"time.Now": func(w *Worker, fn *ssa.Function, _ []Value, _ ssa.CallInstruction) Value {
			// strictly increasing instants: Time{wall: 0, ext: seconds, loc: nil}
			t := w.zero(fn.Signature.Results().At(0).Type()).(StructV)
			w.clock++
			t[1] = w.B.Const(uint64(w.clock), 64)
			return t
		},
		"(time.Time).Add": func(w *Worker, _ *ssa.Function, args []Value, _ ssa.CallInstruction) Value { return args[0] },
		"time.After":      func(w *Worker, _ *ssa.Function, _ []Value, _ ssa.CallInstruction) Value { return OpaqueV{"timer channel"} },
		"time.Since": func(w *Worker, _ *ssa.Function, _ []Value, _ ssa.CallInstruction) Value { return w.B.Const(0, 64) },
		"fmt.Sprintf": func(w *Worker, _ *ssa.Function, args []Value, _ ssa.CallInstruction) Value {
			return w.sprintf(args[0].(StrV), args[1].(SliceV))
		},
		"fmt.Errorf": func(w *Worker, fn *ssa.Function, args []Value, _ ssa.CallInstruction) Value {
			msg := w.sprintf(args[0].(StrV), args[1].(SliceV))
			en := w.P.funcByName("errors", "New")
			return w.call(&FuncV{fn: en}, []Value{msg}, nil)
		},
		"(*regexp.Regexp).FindStringSubmatch": func(w *Worker, _ *ssa.Function, args []Value, _ ssa.CallInstruction) Value {
			re, ok := args[0].(OpaqueV)
			if !ok || re.desc != "regexp:^GET /(?:\\?([a-z0-9=&]+))? HTTP" {
				w.fail("FindStringSubmatch: only the literal getRegex pattern is modelled (got %v)", args[0])
			}
			fn := w.P.funcByName(modPath+"/src/zzv", "M_getRegex_FindStringSubmatch")
			return w.call(&FuncV{fn: fn}, []Value{args[1]}, nil)
		},
		"runtime.GC":         nop,
		"runtime.Gosched":    nop,
		"runtime.KeepAlive":  nop,
		"time.Sleep":         nop,
		"os.Exit": func(w *Worker, _ *ssa.Function, args []Value, _ ssa.CallInstruction) Value {
			w.panicNow("os.Exit called")
			return nil
		},
	}
	for _, n := range []string{"Assert", "Reach", "Observe", "CfgInt", "CfgBool", "CfgStr", "Symbolic"} {
		intrinsicMergeSafe[zz+n] = true
	}
	for _, n := range []string{"Byte", "Bool", "Int", "Int16", "Int32", "Uint16", "Uint32", "Uint64", "Byte7", "Below", "Choose", "Assume", "RunUntilIdle"} {
		intrinsicMergeSafe[zz+n] = false
	}
	// natively lifted pure functions over small domains
	lift1 := func(name string, f func(v uint64) uint64, resW int, argW int) {
		intrinsics[name] = func(w *Worker, fn *ssa.Function, args []Value, site ssa.CallInstruction) Value {
			t := args[0].(*Term)
			if r, ok := w.liftDomain(t, f, resW); ok {
				return r
			}
			return w.callBody(fn, args)
		}
		intrinsicMergeSafe[name] = true
	}
	b2u := func(b bool) uint64 {
		if b {
			return 1
		}
		return 0
	}
	r := func(v uint64) rune { return rune(int32(uint32(v))) }
	lift1("unicode.IsSpace", func(v uint64) uint64 { return b2u(unicode.IsSpace(r(v))) }, 0, 32)
	lift1("unicode.IsUpper", func(v uint64) uint64 { return b2u(unicode.IsUpper(r(v))) }, 0, 32)
	lift1("unicode.IsLower", func(v uint64) uint64 { return b2u(unicode.IsLower(r(v))) }, 0, 32)
	lift1("unicode.IsLetter", func(v uint64) uint64 { return b2u(unicode.IsLetter(r(v))) }, 0, 32)
	lift1("unicode.IsNumber", func(v uint64) uint64 { return b2u(unicode.IsNumber(r(v))) }, 0, 32)
	lift1("unicode.IsDigit", func(v uint64) uint64 { return b2u(unicode.IsDigit(r(v))) }, 0, 32)
	lift1("unicode.IsPrint", func(v uint64) uint64 { return b2u(unicode.IsPrint(r(v))) }, 0, 32)
	lift1("unicode.IsControl", func(v uint64) uint64 { return b2u(unicode.IsControl(r(v))) }, 0, 32)
	lift1("unicode.IsPunct", func(v uint64) uint64 { return b2u(unicode.IsPunct(r(v))) }, 0, 32)
	lift1("unicode.ToLower", func(v uint64) uint64 { return uint64(uint32(unicode.ToLower(r(v)))) }, 32, 32)
	lift1("unicode.ToUpper", func(v uint64) uint64 { return uint64(uint32(unicode.ToUpper(r(v)))) }, 32, 32)
	lift1("unicode/utf8.RuneLen", func(v uint64) uint64 { return uint64(int64(utf8.RuneLen(r(v)))) }, 64, 32)
	lift1("unicode/utf8.ValidRune", func(v uint64) uint64 { return b2u(utf8.ValidRune(r(v))) }, 0, 32)
	intrinsics["unicode.To"] = func(w *Worker, fn *ssa.Function, args []Value, site ssa.CallInstruction) Value {
		c := args[0].(*Term)
		t := args[1].(*Term)
		if c.IsConst() {
			cs := int(c.Val)
			if res, ok := w.liftDomain(t, func(v uint64) uint64 { return uint64(uint32(unicode.To(cs, r(v)))) }, 32); ok {
				return res
			}
		}
		return w.callBody(fn, args)
	}
	intrinsicMergeSafe["unicode.To"] = true
}

func atomicStore(w *Worker, _ *ssa.Function, args []Value, _ ssa.CallInstruction) Value {
	w.store(args[0].(Ptr), args[1])
	return nil
}

func atomicLoad(w *Worker, _ *ssa.Function, args []Value, _ ssa.CallInstruction) Value {
	return w.load(args[0].(Ptr))
}

func atomicAdd(w *Worker, _ *ssa.Function, args []Value, _ ssa.CallInstruction) Value {
	v := w.B.Add(w.load(args[0].(Ptr)).(*Term), args[1].(*Term))
	w.store(args[0].(Ptr), v)
	return v
}

func atomicCAS(w *Worker, _ *ssa.Function, args []Value, _ ssa.CallInstruction) Value {
	p := args[0].(Ptr)
	cur := w.load(p).(*Term)
	eq := w.B.Eq(cur, args[1].(*Term))
	w.store(p, w.B.Ite(eq, args[2].(*Term), cur))
	return eq
}

func nop(w *Worker, _ *ssa.Function, _ []Value, _ ssa.CallInstruction) Value { return nil }

func (w *Worker) callerPos() string {
	return w.curPos()
}

// callBody interprets fn's real body (bypassing the intrinsic table).
func (w *Worker) callBody(fn *ssa.Function, args []Value) Value {
	if fn.Blocks == nil {
		w.fail("no body for %s", fn)
	}
	w.st.realLib++
	fr := &frame{fn: fn, env: make(map[ssa.Value]Value, 32)}
	for i, p := range fn.Params {
		fr.env[p] = args[i]
	}
	save := w.curInstr
	arrs := w.run(fr, fn.Blocks[0], nil, nil, nil, false)
	w.curInstr = save
	return arrs[0].ret
}

// liftDomain builds f(t) as an ite over runs of the (small) domain of t:
// consecutive domain elements with the same result (or the same offset
// f(v)-v) are covered by one range condition.
func (w *Worker) liftDomain(t *Term, f func(uint64) uint64, resW int) (*Term, bool) {
	b := w.B
	if t.IsConst() {
		return b.Const(f(t.Val), resW), true
	}
	d := t.Domain()
	if d == nil {
		return nil, false
	}
	affine := resW == t.W
	type run struct {
		lo, hi uint64
		key    uint64 // result, or delta when affine
		n      int
	}
	var runs []run
	for _, v := range d {
		rv := f(v) & maskB(resW)
		k := rv
		if affine {
			k = (rv - v) & mask(resW)
		}
		if len(runs) > 0 && runs[len(runs)-1].key == k {
			runs[len(runs)-1].hi = v
			runs[len(runs)-1].n++
		} else {
			runs = append(runs, run{v, v, k, 1})
		}
	}
	val := func(r run) *Term {
		if affine {
			if r.lo == r.hi {
				return b.Const(r.lo+r.key, resW)
			}
			return b.Add(t, b.Const(r.key, resW))
		}
		return b.Const(r.key, resW)
	}
	cond := func(i int) *Term {
		r := runs[i]
		if r.lo == r.hi {
			return b.Eq(t, b.Const(r.lo, t.W))
		}
		var cs []*Term
		if i > 0 {
			cs = append(cs, b.Cmp(OpUle, b.Const(r.lo, t.W), t))
		}
		if i < len(runs)-1 {
			cs = append(cs, b.Cmp(OpUle, t, b.Const(r.hi, t.W)))
		}
		return b.And(cs...)
	}
	// default: the key covering most elements
	cnt := map[uint64]int{}
	for _, r := range runs {
		cnt[r.key] += r.n
	}
	best := runs[0].key
	for _, r := range runs {
		if cnt[r.key] > cnt[best] {
			best = r.key
		}
	}
	var res *Term
	if affine {
		res = b.Add(t, b.Const(best, resW))
	} else {
		res = b.Const(best, resW)
	}
	if resW == 0 {
		var cs []*Term
		for i, r := range runs {
			if r.key != best {
				cs = append(cs, cond(i))
			}
		}
		o := b.Or(cs...)
		if best == 0 {
			return o, true
		}
		return b.Not(o), true
	}
	for i := len(runs) - 1; i >= 0; i-- {
		if runs[i].key == best {
			continue
		}
		res = b.Ite(cond(i), val(runs[i]), res)
	}
	return res, true
}

var _ = types.Typ

// sprintf: minimal fmt.Sprintf for %d %s %v %q-free formats (formatting is never the subject of a check).
func (w *Worker) sprintf(format StrV, args SliceV) StrV {
	f, ok := concreteStr(format)
	if !ok {
		w.fail("Sprintf with symbolic format")
	}
	var out []*Term
	ai := 0
	for i := 0; i < len(f); i++ {
		if f[i] != '%' || i+1 >= len(f) {
			out = append(out, w.B.Const(uint64(f[i]), 8))
			continue
		}
		i++
		if f[i] == '%' {
			out = append(out, w.B.Const('%', 8))
			continue
		}
		if ai >= len(args.s) {
			w.fail("Sprintf: missing argument")
		}
		a := args.s[ai].(IfaceV)
		ai++
		switch v := a.v.(type) {
		case StrV:
			out = append(out, v.b...)
		case *Term:
			if v.W == 0 {
				if w.decide(v) {
					out = append(out, w.strConst("true").b...)
				} else {
					out = append(out, w.strConst("false").b...)
				}
			} else {
				n := w.concInt(v, "Sprintf integer")
				if !isSigned(a.t) {
					out = append(out, w.strConst(fmt.Sprintf("%d", uint64(n))).b...)
				} else {
					out = append(out, w.strConst(fmt.Sprintf("%d", n)).b...)
				}
			}
		default:
			out = append(out, w.strConst("<value>").b...)
		}
	}
	return StrV{out}
}


// zzv.Freeze / zzv.Unchanged: the direct contents of one struct (nested structs and arrays
// included; slices, maps, pointers and functions by identity) at two points of a path.
func (w *Worker) frozenTarget(v Value) *Value {
	iv, ok := v.(IfaceV)
	if !ok || iv.t == nil {
		w.fail("zzv.Freeze/Unchanged: nil argument")
	}
	p, ok := iv.v.(Ptr)
	if !ok || p.p == nil || p.alts != nil || p.idx != nil {
		w.fail("zzv.Freeze/Unchanged: argument must be a plain pointer to a struct")
	}
	return p.p
}

func copyAggregate(v Value) Value {
	switch x := v.(type) {
	case StructV:
		c := make(StructV, len(x))
		for i := range x {
			c[i] = copyAggregate(x[i])
		}
		return c
	case ArrayV:
		c := make(ArrayV, len(x))
		for i := range x {
			c[i] = copyAggregate(x[i])
		}
		return c
	}
	return v
}

func (w *Worker) sameShallow(x, y Value) *Term {
	b := w.B
	switch xv := x.(type) {
	case StructV:
		yv, ok := y.(StructV)
		if !ok || len(xv) != len(yv) {
			return b.False
		}
		cs := make([]*Term, len(xv))
		for i := range xv {
			cs[i] = w.sameShallow(xv[i], yv[i])
		}
		return b.And(cs...)
	case ArrayV:
		yv, ok := y.(ArrayV)
		if !ok || len(xv) != len(yv) {
			return b.False
		}
		cs := make([]*Term, len(xv))
		for i := range xv {
			cs[i] = w.sameShallow(xv[i], yv[i])
		}
		return b.And(cs...)
	case SliceV:
		yv, ok := y.(SliceV)
		if !ok {
			return b.False
		}
		if len(xv.s) != len(yv.s) || cap(xv.s) != cap(yv.s) {
			return b.False
		}
		if cap(xv.s) == 0 {
			return b.Bool((xv.s == nil) == (yv.s == nil))
		}
		return b.Bool(&xv.s[:1][0] == &yv.s[:1][0])
	case *FuncV:
		yv, _ := y.(*FuncV)
		if xv == nil || yv == nil {
			return b.Bool(xv == nil && yv == nil)
		}
		return b.Bool(xv == yv || xv.fn == yv.fn && xv.builtin == yv.builtin)
	case *MapV:
		yv, _ := y.(*MapV)
		return b.Bool(xv == yv)
	case *ChanV:
		yv, _ := y.(*ChanV)
		return b.Bool(xv == yv)
	case IfaceV:
		yv, ok := y.(IfaceV)
		if !ok {
			return b.False
		}
		if xv.t == nil || yv.t == nil {
			return b.Bool(xv.t == nil && yv.t == nil)
		}
		if !types.Identical(xv.t, yv.t) {
			return b.False
		}
		return w.sameShallow(xv.v, yv.v)
	case nil:
		return b.Bool(y == nil)
	}
	return w.equal(x, y)
}


func (w *Worker) vfsHas(name string) (Value, bool) {
	z := w.P.pkgs[modPath+"/src/zzv"]
	g, _ := z.Members["vfs"].(*ssa.Global)
	w.ensureInit(z)
	m, _ := (*w.globals[g]).(*MapV)
	if m == nil {
		return nil, false
	}
	for _, e := range m.entries {
		if k, ok := e.k.(StrV); ok {
			if ks, c := concreteStr(k); c && ks == name {
				return e.v, true
			}
		}
	}
	return nil, false
}

func (w *Worker) strToBytes(s StrV) Value {
	out := make([]Value, len(s.b))
	for i, t := range s.b {
		out[i] = t
	}
	return SliceV{s: out}
}

func (w *Worker) fileAppend(f Value, data Value, site ssa.CallInstruction) Value {
	o, ok := f.(OpaqueV)
	if !ok || !strings.HasPrefix(o.desc, "osfile:") {
		w.fail("write to a file not opened through the modelled os.OpenFile")
	}
	fn := w.P.funcByName(modPath+"/src/zzv", "M_os_FileAppend")
	n := w.call(&FuncV{fn: fn}, []Value{w.strConst(o.desc[len("osfile:"):]), data}, site)
	return TupleV{n, IfaceV{}}
}
