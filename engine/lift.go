package main

// Closure lifting (DESIGN §2.5): locate a function literal inside a function of
// the current /repo source, compute its free variables with go/types and emit a
// wrapper whose body is the literal verbatim, except that every reference to a
// free variable `v` becomes `env.v`:
//
//	type zzEnv_<name> struct { v T; ... }
//	func zzLift_<name>(env *zzEnv_<name>) <func type> { return func(...) {...} }
//
// The same generated file compiles natively, which makes replay possible.

import (
	"encoding/json"
	"fmt"
	"go/ast"
	"go/parser"
	"go/token"
	"go/types"
	"os"
	"path/filepath"
	"sort"
	"strings"

	"golang.org/x/tools/go/packages"
)

type liftSpec struct {
	Name     string `json:"name"`
	File     string `json:"file"`     // relative to repo, e.g. src/core.go
	Func     string `json:"func"`     // enclosing function or method name
	Contains string `json:"contains"` // distinctive source text inside the literal
	Pkg      string `json:"pkg"`      // package pattern, e.g. ./src
}

func liftMain(args []string) {
	if len(args) != 3 {
		fatal(fmt.Errorf("usage: symgo lift <repo> <specs.json> <outdir>"))
	}
	repo, specFile, outDir := args[0], args[1], args[2]
	var specs []liftSpec
	data, err := os.ReadFile(specFile)
	if err != nil {
		fatal(err)
	}
	if err := json.Unmarshal(data, &specs); err != nil {
		fatal(err)
	}
	byPkg := map[string][]liftSpec{}
	for _, s := range specs {
		byPkg[s.Pkg] = append(byPkg[s.Pkg], s)
	}
	result := map[string]string{} // virtual path -> real path
	for pat, ss := range byPkg {
		cfg := &packages.Config{Mode: packages.NeedName | packages.NeedFiles | packages.NeedCompiledGoFiles | packages.NeedSyntax | packages.NeedTypes | packages.NeedTypesInfo | packages.NeedImports | packages.NeedDeps,
			Dir: repo, Env: append(os.Environ(), "GOFLAGS=-mod=mod", "GOPROXY=off", "GOSUMDB=off", "GOTOOLCHAIN=local")}
		pkgs, err := packages.Load(cfg, pat)
		if err != nil || len(pkgs) != 1 {
			fatal(fmt.Errorf("lift: cannot load %s: %v", pat, err))
		}
		pkg := pkgs[0]
		for _, s := range ss {
			src, err := liftOne(pkg, repo, s)
			if err != nil {
				fatal(fmt.Errorf("lift %s: %v", s.Name, err))
			}
			out := filepath.Join(outDir, "zz_lift_"+s.Name+".go")
			if err := os.WriteFile(out, []byte(src), 0644); err != nil {
				fatal(err)
			}
			result[filepath.Join(repo, filepath.Dir(s.File), "zz_verif_lift_"+s.Name+".go")] = out
		}
	}
	enc, _ := json.Marshal(result)
	os.Stdout.Write(enc)
}

func liftOne(pkg *packages.Package, repo string, s liftSpec) (string, error) {
	var file *ast.File
	var fileSrc []byte
	for i, f := range pkg.Syntax {
		if strings.HasSuffix(pkg.CompiledGoFiles[i], "/"+s.File) || pkg.CompiledGoFiles[i] == filepath.Join(repo, s.File) {
			file = f
			b, err := os.ReadFile(pkg.CompiledGoFiles[i])
			if err != nil {
				return "", err
			}
			fileSrc = b
		}
	}
	if file == nil {
		return "", fmt.Errorf("file %s not in package", s.File)
	}
	fset := pkg.Fset
	text := func(n ast.Node) string {
		return string(fileSrc[fset.Position(n.Pos()).Offset:fset.Position(n.End()).Offset])
	}
	var encl *ast.FuncDecl
	for _, d := range file.Decls {
		if fd, ok := d.(*ast.FuncDecl); ok && fd.Name.Name == s.Func {
			encl = fd
		}
	}
	if encl == nil {
		return "", fmt.Errorf("function %s not found in %s", s.Func, s.File)
	}
	var cands []*ast.FuncLit
	ast.Inspect(encl, func(n ast.Node) bool {
		if fl, ok := n.(*ast.FuncLit); ok && strings.Contains(text(fl), s.Contains) {
			cands = append(cands, fl)
		}
		return true
	})
	// innermost literals only (drop any candidate that contains another candidate)
	var inner []*ast.FuncLit
	for _, c := range cands {
		hasInner := false
		for _, d := range cands {
			if d != c && d.Pos() >= c.Pos() && d.End() <= c.End() {
				hasInner = true
			}
		}
		if !hasInner {
			inner = append(inner, c)
		}
	}
	if len(inner) != 1 {
		return "", fmt.Errorf("expected exactly one function literal in %s containing %q, found %d", s.Func, s.Contains, len(inner))
	}
	lit := inner[0]
	info := pkg.TypesInfo
	// free variables: objects declared inside encl (incl. params/receiver) but outside lit
	type ref struct{ off int }
	free := map[*types.Var][]int{}
	ast.Inspect(lit, func(n ast.Node) bool {
		id, ok := n.(*ast.Ident)
		if !ok {
			return true
		}
		obj, ok := info.Uses[id].(*types.Var)
		if !ok || obj.IsField() || obj.Pkg() != pkg.Types {
			return true
		}
		if obj.Parent() == pkg.Types.Scope() {
			return true // package-level variable
		}
		if obj.Pos() >= lit.Pos() && obj.Pos() < lit.End() {
			return true // declared inside the literal
		}
		if obj.Pos() < encl.Pos() || obj.Pos() >= encl.End() {
			return true
		}
		free[obj] = append(free[obj], fset.Position(id.Pos()).Offset)
		return true
	})
	// rewrite references
	type edit struct {
		off  int
		name string
	}
	var edits []edit
	var vars []*types.Var
	for v, offs := range free {
		vars = append(vars, v)
		for _, o := range offs {
			edits = append(edits, edit{o, v.Name()})
		}
	}
	sort.Slice(vars, func(i, j int) bool { return vars[i].Pos() < vars[j].Pos() })
	sort.Slice(edits, func(i, j int) bool { return edits[i].off > edits[j].off })
	start := fset.Position(lit.Pos()).Offset
	body := string(fileSrc[start:fset.Position(lit.End()).Offset])
	for _, e := range edits {
		rel := e.off - start
		body = body[:rel] + "env." + e.name + body[rel+len(e.name):]
	}
	qual := func(p *types.Package) string {
		if p == pkg.Types {
			return ""
		}
		return p.Name()
	}
	var sb strings.Builder
	fmt.Fprintf(&sb, "// Code generated by symgo lift from %s (function %s); DO NOT EDIT.\n\npackage %s\n\n", s.File, s.Func, pkg.Types.Name())
	// imports: those of the original file whose name is used in the generated code
	var decl strings.Builder
	fmt.Fprintf(&decl, "type zzEnv_%s struct {\n", s.Name)
	for _, v := range vars {
		fmt.Fprintf(&decl, "\t%s %s\n", v.Name(), types.TypeString(v.Type(), qual))
	}
	decl.WriteString("}\n\n")
	// a by-name setter, so that a harness keeps compiling when the set of free variables changes
	fmt.Fprintf(&decl, "func (env *zzEnv_%s) zzSet(name string, v any) bool {\n\tswitch name {\n", s.Name)
	for _, v := range vars {
		fmt.Fprintf(&decl, "\tcase %q:\n\t\tx, ok := v.(%s)\n\t\tif ok {\n\t\t\tenv.%s = x\n\t\t}\n\t\treturn ok\n", v.Name(), types.TypeString(v.Type(), qual), v.Name())
	}
	decl.WriteString("\t}\n\treturn false\n}\n\n")
	ftype := types.TypeString(info.TypeOf(lit), qual)
	fmt.Fprintf(&decl, "func zzLift_%s(env *zzEnv_%s) %s {\n\treturn %s\n}\n", s.Name, s.Name, ftype, body)
	code := decl.String()
	// identifiers used as package qualifiers in the generated code (comments do not count)
	usedQual := map[string]bool{}
	if pf, err := parser.ParseFile(token.NewFileSet(), "lifted.go", "package p\n"+code, 0); err == nil {
		ast.Inspect(pf, func(n ast.Node) bool {
			if se, ok := n.(*ast.SelectorExpr); ok {
				if id, ok := se.X.(*ast.Ident); ok {
					usedQual[id.Name] = true
				}
			}
			return true
		})
	} else {
		return "", fmt.Errorf("generated code does not parse: %v", err)
	}
	var imps []string
	for _, im := range file.Imports {
		path := strings.Trim(im.Path.Value, "\"")
		name := filepath.Base(path)
		if im.Name != nil {
			name = im.Name.Name
		} else if p := pkg.Imports[path]; p != nil {
			name = p.Name
		}
		if usedQual[name] {
			if im.Name != nil {
				imps = append(imps, fmt.Sprintf("\t%s %s", im.Name.Name, im.Path.Value))
			} else {
				imps = append(imps, "\t"+im.Path.Value)
			}
		}
	}
	// packages needed only by free-variable types
	for _, v := range vars {
		collectPkgs(v.Type(), pkg.Types, func(p *types.Package) {
			line := fmt.Sprintf("\t%q", p.Path())
			found := false
			for _, l := range imps {
				if strings.Contains(l, fmt.Sprintf("%q", p.Path())) {
					found = true
				}
			}
			if !found {
				imps = append(imps, line)
			}
		})
	}
	if len(imps) > 0 {
		sb.WriteString("import (\n" + strings.Join(imps, "\n") + "\n)\n\n")
	}
	sb.WriteString(code)
	_ = token.NoPos
	return sb.String(), nil
}

func collectPkgs(t types.Type, self *types.Package, f func(*types.Package)) {
	seen := map[types.Type]bool{}
	var rec func(t types.Type)
	rec = func(t types.Type) {
		if t == nil || seen[t] {
			return
		}
		seen[t] = true
		switch u := t.(type) {
		case *types.Named:
			if p := u.Obj().Pkg(); p != nil && p != self {
				f(p)
			}
			if ta := u.TypeArgs(); ta != nil {
				for i := 0; i < ta.Len(); i++ {
					rec(ta.At(i))
				}
			}
		case *types.Pointer:
			rec(u.Elem())
		case *types.Slice:
			rec(u.Elem())
		case *types.Array:
			rec(u.Elem())
		case *types.Map:
			rec(u.Key())
			rec(u.Elem())
		case *types.Chan:
			rec(u.Elem())
		case *types.Signature:
			for i := 0; i < u.Params().Len(); i++ {
				rec(u.Params().At(i).Type())
			}
			for i := 0; i < u.Results().Len(); i++ {
				rec(u.Results().At(i).Type())
			}
		case *types.Struct:
			for i := 0; i < u.NumFields(); i++ {
				rec(u.Field(i).Type())
			}
		}
	}
	rec(t)
}
