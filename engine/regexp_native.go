package main

// Regular-expression methods on *concrete* input strings are executed natively
// with Go's own regexp package (the pattern is remembered by the opaque handle
// regexp.MustCompile returns), so no model of the regex is involved. Callbacks
// (ReplaceAllStringFunc) are interpreted symbolically. A symbolic input string
// makes the job inconclusive unless a literal-keyed model exists (intrinsics.go).

import (
	"regexp"
	"strings"

	"golang.org/x/tools/go/ssa"
)

func (w *Worker) nativeRegexp(v Value) *regexp.Regexp {
	o, ok := v.(OpaqueV)
	if !ok || !strings.HasPrefix(o.desc, "regexp:") {
		w.fail("regexp method on a value not produced by regexp.MustCompile")
	}
	re, err := regexp.Compile(o.desc[len("regexp:"):])
	if err != nil {
		w.fail("regexp: %v", err)
	}
	return re
}

func (w *Worker) strSlice(ss []string) Value {
	if ss == nil {
		return SliceV{}
	}
	out := make([]Value, len(ss))
	for i, s := range ss {
		out[i] = w.strConst(s)
	}
	return SliceV{s: out}
}

func init() {
	concrete := func(w *Worker, v Value, what string) (string, bool) {
		s, ok := concreteStr(v.(StrV))
		return s, ok
	}
	intrinsics["(*regexp.Regexp).ReplaceAllStringFunc"] = func(w *Worker, _ *ssa.Function, args []Value, site ssa.CallInstruction) Value {
		src, ok := concrete(w, args[1], "ReplaceAllStringFunc")
		if !ok {
			w.fail("regexp ReplaceAllStringFunc on a symbolic string")
		}
		re := w.nativeRegexp(args[0])
		fn := args[2].(*FuncV)
		var out []*Term
		last := 0
		for _, loc := range re.FindAllStringIndex(src, -1) {
			out = append(out, w.strConst(src[last:loc[0]]).b...)
			r := w.call(fn, []Value{w.strConst(src[loc[0]:loc[1]])}, site).(StrV)
			out = append(out, r.b...)
			last = loc[1]
		}
		out = append(out, w.strConst(src[last:]).b...)
		return StrV{out}
	}
	intrinsics["(*regexp.Regexp).FindAllString"] = func(w *Worker, _ *ssa.Function, args []Value, _ ssa.CallInstruction) Value {
		src, ok := concrete(w, args[1], "FindAllString")
		if !ok {
			w.fail("regexp FindAllString on a symbolic string")
		}
		n := w.concInt(args[2].(*Term), "FindAllString n")
		return w.strSlice(w.nativeRegexp(args[0]).FindAllString(src, n))
	}
	intrinsics["(*regexp.Regexp).FindAllStringIndex"] = func(w *Worker, _ *ssa.Function, args []Value, _ ssa.CallInstruction) Value {
		src, ok := concrete(w, args[1], "FindAllStringIndex")
		if !ok {
			w.fail("regexp FindAllStringIndex on a symbolic string")
		}
		n := w.concInt(args[2].(*Term), "FindAllStringIndex n")
		locs := w.nativeRegexp(args[0]).FindAllStringIndex(src, n)
		if locs == nil {
			return SliceV{}
		}
		out := make([]Value, len(locs))
		for i, l := range locs {
			out[i] = SliceV{s: []Value{w.B.Const(uint64(l[0]), 64), w.B.Const(uint64(l[1]), 64)}}
		}
		return SliceV{s: out}
	}
	intrinsics["regexp.Compile"] = func(w *Worker, _ *ssa.Function, args []Value, _ ssa.CallInstruction) Value {
		pat, ok := concreteStr(args[0].(StrV))
		if !ok {
			w.fail("regexp.Compile of symbolic pattern")
		}
		if _, err := regexp.Compile(pat); err != nil {
			w.fail("regexp.Compile: pattern %q does not compile (error values of regexp are not modelled)", pat)
		}
		return TupleV{OpaqueV{"regexp:" + pat}, IfaceV{}}
	}
	intrinsics["(*regexp.Regexp).FindStringIndex"] = func(w *Worker, _ *ssa.Function, args []Value, _ ssa.CallInstruction) Value {
		src, ok := concrete(w, args[1], "FindStringIndex")
		if !ok {
			w.fail("regexp FindStringIndex on a symbolic string")
		}
		l := w.nativeRegexp(args[0]).FindStringIndex(src)
		if l == nil {
			return SliceV{}
		}
		return SliceV{s: []Value{w.B.Const(uint64(l[0]), 64), w.B.Const(uint64(l[1]), 64)}}
	}
	intrinsics["(*regexp.Regexp).MatchString"] = func(w *Worker, _ *ssa.Function, args []Value, _ ssa.CallInstruction) Value {
		src, ok := concrete(w, args[1], "MatchString")
		if !ok {
			w.fail("regexp MatchString on a symbolic string")
		}
		return w.B.Bool(w.nativeRegexp(args[0]).MatchString(src))
	}
	prevSub := intrinsics["(*regexp.Regexp).FindStringSubmatch"]
	intrinsics["(*regexp.Regexp).FindStringSubmatch"] = func(w *Worker, fn *ssa.Function, args []Value, site ssa.CallInstruction) Value {
		if src, ok := concrete(w, args[1], "FindStringSubmatch"); ok {
			return w.strSlice(w.nativeRegexp(args[0]).FindStringSubmatch(src))
		}
		return prevSub(w, fn, args, site)
	}
	prevSplit := intrinsics["(*regexp.Regexp).Split"]
	intrinsics["(*regexp.Regexp).Split"] = func(w *Worker, fn *ssa.Function, args []Value, site ssa.CallInstruction) Value {
		if src, ok := concrete(w, args[1], "Split"); ok {
			if n := args[2].(*Term); n.IsConst() {
				return w.strSlice(w.nativeRegexp(args[0]).Split(src, int(sext64(n.Val, 64))))
			}
		}
		return prevSplit(w, fn, args, site)
	}
}
