package main

// Symbolic executor over go/ssa. Forks by decision replay (each path is
// re-executed from the start following a recorded decision prefix), merges
// small loop-free regions by executing both arms under guards.

import (
	"os"
	"sync"
	"fmt"
	"go/constant"
	"go/types"
	"strings"

	"golang.org/x/tools/go/ssa"
)

type dec struct {
	K int8 // 0/1 branch, 2 choose value, 3 concretize eq, 4 concretize neq
	V int64
	H uint32 // hash of the program position where the decision was taken (replay alignment guard)
}

func (w *Worker) posHash() uint32 {
	h := uint32(2166136261)
	for _, c := range []byte(w.curPos()) {
		h = (h ^ uint32(c)) * 16777619
	}
	return h
}

func (w *Worker) checkAlign(d dec) {
	if d.H != 0 && d.H != w.posHash() {
		w.fail("replay misaligned: decision recorded at another program position (now at %s)", w.curPos())
	}
}

type jent struct {
	p     *Value
	old   Value
	m     *MapV
	me    []mapEntry
	ch    *ChanV
	chOld []Value
}

type obl struct {
	cond *Term // must hold
	kind string // "panic" or "assert"
	id   string
	pos  string
}

type ndEntry struct {
	kind string // byte, int, bool, choose, ...
	t    *Term  // nil for choose
	v    int64  // for choose
}

type frame struct {
	fn     *ssa.Function
	env    map[ssa.Value]Value
	defers []func()
	result Value
	loopCnt map[*ssa.BasicBlock]int
}

type arrival struct {
	g       *Term
	phiVals []Value
	ret     Value
	isRet   bool
	writes  map[*Value]Value
	order   []*Value
}

type region struct {
	mark      int
	guardBase int
}

type knownUndo struct {
	t   *Term
	had bool
	old bool
}

type pathEnd struct {
	kind string // "done", "infeasible", "panic", "pruned"
	msg  string
}

type Violation struct {
	Kind   string  `json:"kind"` // assert / panic
	ID     string  `json:"id"`
	Pos    string  `json:"pos"`
	Vector []int64 `json:"vector"`
	Kinds  []string `json:"kinds"`
	Trace  []dec   `json:"trace"`
	Obs    []string `json:"obs,omitempty"`
	Confirmed string `json:"confirmed,omitempty"`
}

type Worker struct {
	P      *Program
	job    *Job
	baseB  *Builder
	B      *Builder
	S      *Solver
	globals map[*ssa.Global]*Value
	initDone map[*ssa.Package]bool
	inInit  bool

	journal []jent
	pc      []*Term
	known   map[*Term]bool
	model   Model
	modelOK bool

	prefix []dec
	pos    int
	trace  []dec
	nondet []ndEntry
	concreteVec []int64 // when non-nil: concrete mode, nondet values come from here
	cvPos  int

	pending []obl
	guards  []*Term
	inMerge int
	loopCnt map[*ssa.BasicBlock]int
	steps   int64
	depth   int

	obs []string // Observe log of this path
	callers []string // the last few functions entered (diagnostics only)
	frozen map[string]Value // zzv.Freeze snapshots of this path
	knownLog  []knownUndo
	curInstr  ssa.Instruction
	lastModel Model
	cos       []*coroutine
	cur       *coroutine
	yieldCh   chan struct{}
	coErr     interface{}
	clock     int64
	uf        map[string]string   // variable name -> parent (union-find over PC variables)
	comp      map[string][]int    // root -> indices of PC conjuncts in the component
	dirty     map[string]bool     // variables whose component the model no longer satisfies
	st        jobStats
	reached   []string

	// per-path results
	viols []Violation
	newWork []workAlt
	errMsg string
	pathKind string
}

type noReturn struct{}

func (w *Worker) fail(format string, args ...interface{}) {
	panic(unsupportedErr{fmt.Sprintf(format, args...)})
}

// ---------- heap ----------

func (w *Worker) storeSlot(p *Value, v Value) {
	if !w.inInit {
		w.journal = append(w.journal, jent{p: p, old: *p})
	}
	*p = v
}

func (w *Worker) rollback(mark int) {
	for i := len(w.journal) - 1; i >= mark; i-- {
		e := w.journal[i]
		if e.ch != nil {
			e.ch.buf = e.chOld
		} else if e.m != nil {
			e.m.entries = e.me
		} else {
			*e.p = e.old
		}
	}
	w.journal = w.journal[:mark]
}

// store writes v (copied) into the slot(s) designated by ptr, field-wise for aggregates.
func (w *Worker) toAlts(p Ptr) Ptr {
	if p.idx == nil {
		return p
	}
	alts := make([]altPtr, len(p.cand))
	for i, k := range p.cand {
		alts[i] = altPtr{w.B.Eq(p.idx, w.B.Const(uint64(k), 64)), Ptr{p: &p.cells[k], arr: p.back[k:]}}
	}
	return Ptr{alts: alts}
}

func (w *Worker) store(ptr Ptr, v Value) {
	if ptr.idx != nil {
		for _, k := range ptr.cand {
			slot := Ptr{p: &ptr.cells[k]}
			old := w.load(slot)
			w.store(slot, w.ite(w.B.Eq(ptr.idx, w.B.Const(uint64(k), 64)), v, old))
		}
		return
	}
	if ptr.alts != nil {
		for _, a := range ptr.alts {
			if a.p.isNil() {
				w.oblige(w.B.Not(a.g), "panic", "nil pointer dereference (store)", w.curPos())
				continue
			}
			old := w.load(a.p)
			w.store(a.p, w.ite(a.g, v, old))
		}
		return
	}
	if ptr.p == nil {
		w.panicNow("nil pointer dereference (store)")
	}
	w.storeInto(ptr.p, v)
}

func (w *Worker) storeInto(p *Value, v Value) {
	switch vv := v.(type) {
	case StructV:
		if cur, ok := (*p).(StructV); ok && len(cur) == len(vv) {
			for i := range vv {
				w.storeInto(&cur[i], vv[i])
			}
			return
		}
		w.storeSlot(p, copyVal(v))
	case ArrayV:
		if cur, ok := (*p).(ArrayV); ok && len(cur) == len(vv) {
			for i := range vv {
				w.storeInto(&cur[i], vv[i])
			}
			return
		}
		w.storeSlot(p, copyVal(v))
	default:
		w.storeSlot(p, v)
	}
}

func (w *Worker) load(ptr Ptr) (res Value) {
	if ptr.idx != nil || ptr.alts != nil {
		if w.inMerge == 0 {
			// values that cannot be merged (slices, maps, ...): fork on the pointer instead
			defer func() {
				if r := recover(); r != nil {
					if _, ok := r.(mergeAbort); !ok {
						panic(r)
					}
					res = w.loadForked(ptr)
				}
			}()
		}
	}
	if ptr.idx != nil {
		return w.loadIndexed(ptr)
	}
	if ptr.alts != nil {
		var r Value
		for i := len(ptr.alts) - 1; i >= 0; i-- {
			a := ptr.alts[i]
			if a.p.isNil() {
				w.oblige(w.B.Not(a.g), "panic", "nil pointer dereference (load)", w.curPos())
				continue
			}
			v := w.load(a.p)
			if r == nil {
				r = v
			} else {
				r = w.ite(a.g, v, r)
			}
		}
		return r
	}
	if ptr.p == nil {
		w.panicNow("nil pointer dereference (load)")
	}
	return copyVal(*ptr.p)
}

func (w *Worker) loadForked(ptr Ptr) Value {
	if ptr.idx != nil {
		k := int(w.concretize(ptr.idx, "symbolic pointer"))
		return copyVal(ptr.cells[k])
	}
	for i, a := range ptr.alts {
		if i == len(ptr.alts)-1 || w.decide(a.g) {
			return w.load(a.p)
		}
	}
	panic(pathEnd{kind: "infeasible"})
}

// loadIndexed reads cells[idx]; consecutive candidates holding the same term share one range condition.
func (w *Worker) loadIndexed(p Ptr) Value {
	b := w.B
	type run struct {
		lo, hi int
		v      Value
	}
	var runs []run
	for _, k := range p.cand {
		v := p.cells[k]
		if n := len(runs); n > 0 {
			if tv, ok := v.(*Term); ok {
				if pv, ok := runs[n-1].v.(*Term); ok && pv == tv {
					runs[n-1].hi = k
					continue
				}
			}
		}
		runs = append(runs, run{k, k, copyVal(v)})
	}
	cond := func(i int) *Term {
		r := runs[i]
		if r.lo == r.hi {
			return b.Eq(p.idx, b.Const(uint64(r.lo), 64))
		}
		var cs []*Term
		if i > 0 {
			cs = append(cs, b.Cmp(OpUle, b.Const(uint64(r.lo), 64), p.idx))
		}
		if i < len(runs)-1 {
			cs = append(cs, b.Cmp(OpUle, p.idx, b.Const(uint64(r.hi), 64)))
		}
		return b.And(cs...)
	}
	res := runs[len(runs)-1].v
	for i := len(runs) - 2; i >= 0; i-- {
		res = w.ite(cond(i), runs[i].v, res)
	}
	return res
}

// ---------- ite over values ----------

func (w *Worker) ite(c *Term, a, b Value) Value {
	if c.IsTrue() {
		return a
	}
	if c.IsFalse() {
		return b
	}
	switch av := a.(type) {
	case *Term:
		bv, ok := b.(*Term)
		if !ok {
			panic(mergeAbort{"ite term/non-term"})
		}
		return w.B.Ite(c, av, bv)
	case float64:
		if bv, ok := b.(float64); ok && bv == av {
			return a
		}
	case StrV:
		bv, ok := b.(StrV)
		if ok && len(av.b) == len(bv.b) {
			r := make([]*Term, len(av.b))
			for i := range r {
				r[i] = w.B.Ite(c, av.b[i], bv.b[i])
			}
			return StrV{r}
		}
	case StructV:
		bv, ok := b.(StructV)
		if ok && len(av) == len(bv) {
			r := make(StructV, len(av))
			for i := range r {
				r[i] = w.ite(c, av[i], bv[i])
			}
			return r
		}
	case ArrayV:
		bv, ok := b.(ArrayV)
		if ok && len(av) == len(bv) {
			r := make(ArrayV, len(av))
			for i := range r {
				r[i] = w.ite(c, av[i], bv[i])
			}
			return r
		}
	case TupleV:
		bv, ok := b.(TupleV)
		if ok && len(av) == len(bv) {
			r := make(TupleV, len(av))
			for i := range r {
				r[i] = w.ite(c, av[i], bv[i])
			}
			return r
		}
	case SliceV:
		bv, ok := b.(SliceV)
		if ok && sameSlice(av, bv) {
			return a
		}
	case Ptr:
		bv, ok := b.(Ptr)
		if ok {
			if samePtr(av, bv) {
				return a
			}
			av, bv = w.toAlts(av), w.toAlts(bv)
			{
				var alts []altPtr
				add := func(g *Term, p Ptr) {
					if p.alts != nil {
						for _, x := range p.alts {
							alts = append(alts, altPtr{w.B.And(g, x.g), x.p})
						}
					} else {
						alts = append(alts, altPtr{g, p})
					}
				}
				add(c, av)
				add(w.B.Not(c), bv)
				return Ptr{alts: alts}
			}
		}
	case IfaceV:
		bv, ok := b.(IfaceV)
		if ok {
			if av.t == nil && bv.t == nil {
				return a
			}
			if av.t != nil && bv.t != nil && types.Identical(av.t, bv.t) {
				return IfaceV{av.t, w.ite(c, av.v, bv.v)}
			}
		}
	case *FuncV:
		if bv, ok := b.(*FuncV); ok && bv == av {
			return a
		}
	case *MapV:
		if bv, ok := b.(*MapV); ok && bv == av {
			return a
		}
	case OpaqueV:
		if bv, ok := b.(OpaqueV); ok && bv == av {
			return a
		}
	case nil:
		if b == nil {
			return nil
		}
	}
	panic(mergeAbort{fmt.Sprintf("ite of %T / %T", a, b)})
}

func sameSlice(a, b SliceV) bool {
	if len(a.s) != len(b.s) || cap(a.s) != cap(b.s) {
		return false
	}
	if a.s == nil || b.s == nil {
		return a.s == nil && b.s == nil
	}
	if cap(a.s) == 0 {
		return true
	}
	return &a.s[:1][0] == &b.s[:1][0]
}

func samePtr(a, b Ptr) bool {
	if a.idx != nil || b.idx != nil {
		return a.idx == b.idx && len(a.cells) == len(b.cells) && len(a.cells) > 0 && &a.cells[0] == &b.cells[0]
	}
	if a.alts != nil || b.alts != nil {
		if len(a.alts) != len(b.alts) {
			return false
		}
		for i := range a.alts {
			if a.alts[i].g != b.alts[i].g || !samePtr(a.alts[i].p, b.alts[i].p) {
				return false
			}
		}
		return true
	}
	return a.p == b.p
}

// ---------- path condition / decisions ----------

func (w *Worker) recordKnown(c *Term, val bool) {
	if w.inMerge > 0 {
		old, had := w.known[c]
		w.knownLog = append(w.knownLog, knownUndo{c, had, old})
	}
	w.known[c] = val
	if val && c.Op == OpBAnd {
		for _, a := range c.Args {
			w.recordKnown(a, true)
		}
	}
	if !val && c.Op == OpBOr {
		for _, a := range c.Args {
			w.recordKnown(a, false)
		}
	}
	if c.Op == OpBNot {
		w.recordKnown(c.Args[0], !val)
	}
}

func (w *Worker) lookupKnown(c *Term) (bool, bool) {
	if v, ok := w.known[c]; ok {
		return v, true
	}
	if c.Op == OpBNot {
		if v, ok := w.known[c.Args[0]]; ok {
			return !v, true
		}
	}
	return false, false
}

func (w *Worker) inconclusive(msg string) {
	panic(unsupportedErr{"INCONCLUSIVE: " + msg})
}

// decide forks on a symbolic condition.
func (w *Worker) decide(c *Term) bool {
	if c.IsConst() {
		return c.Val != 0
	}
	if v, ok := w.lookupKnown(c); ok {
		if debugSites != nil {
			fmt.Fprintf(os.Stderr, "decide: known=%v at %s: %s\n", v, w.curPos(), c)
		}
		return v
	}
	if w.inMerge > 0 {
		panic(mergeAbort{"decision inside merged region"})
	}
	if w.concreteVec != nil {
		w.fail("symbolic decision in concrete mode: %s", c)
	}
	if w.pos < len(w.prefix) {
		// mirror the original run exactly: it flushed (and thereby assumed) the pending
		// obligations before taking this decision
		w.flush()
		if v, ok := w.lookupKnown(c); ok {
			return v
		}
		d := w.prefix[w.pos]
		w.pos++
		w.trace = append(w.trace, d)
		if d.K != 0 && d.K != 1 {
			w.fail("replay mismatch: expected branch decision, got %v", d)
		}
		w.checkAlign(d)
		if d.K == 1 {
			w.addPC(c)
		} else {
			w.addPC(w.B.Not(c))
		}
		return d.K == 1
	}
	w.flush()
	if v, ok := w.lookupKnown(c); ok {
		return v
	}
	nc := w.B.Not(c)
	if !w.ensureModel() {
		panic(pathEnd{kind: "infeasible"})
	}
	var tv, fv Verdict
	var altModel Model
	if w.model.Eval(c) != 0 {
		tv = Sat
		fv, altModel = w.feasibleM(nc)
	} else {
		fv = Sat
		tv, altModel = w.feasibleM(c)
	}
	if tv == Unknown || fv == Unknown {
		// unknown = keep both sides
		if tv == Unknown {
			tv = Sat
		}
		if fv == Unknown {
			fv = Sat
		}
		altModel = nil
	}
	var take bool
	switch {
	case tv == Sat && fv == Sat:
		alt := append(append([]dec{}, w.trace...), dec{K: 0, H: w.posHash()})
		var am Model
		if w.model.Eval(c) != 0 {
			am = altModel // model of PC ∧ ¬c
		} else {
			am = w.model // the current model satisfies ¬c
		}
		w.pushWork(alt, am)
		take = true
	case tv == Sat:
		take = true
	case fv == Sat:
		take = false
	default:
		panic(pathEnd{kind: "infeasible"})
	}
	if take {
		w.trace = append(w.trace, dec{K: 1, H: w.posHash()})
		if w.model.Eval(c) == 0 && altModel != nil {
			w.model = altModel
		}
		w.addPC(c)
	} else {
		w.trace = append(w.trace, dec{K: 0, H: w.posHash()})
		if w.model.Eval(nc) == 0 && altModel != nil {
			w.model = altModel
		}
		w.addPC(nc)
	}
	return take
}

// choose forks concretely over lo..hi.
func (w *Worker) choose(lo, hi int64) int64 {
	if w.inMerge > 0 {
		panic(mergeAbort{"choose inside merged region"})
	}
	if w.concreteVec != nil {
		v := w.nextConcrete()
		if v < lo || v > hi {
			panic(pathEnd{kind: "pruned"})
		}
		w.nondet = append(w.nondet, ndEntry{kind: "choose", v: v})
		return v
	}
	var v int64
	if w.pos < len(w.prefix) {
		d := w.prefix[w.pos]
		w.pos++
		if d.K != 2 {
			w.fail("replay mismatch: expected choose, got %v", d)
		}
		w.checkAlign(d)
		v = d.V
	} else {
		v = lo
		for k := hi; k > lo; k-- {
			alt := append(append([]dec{}, w.trace...), dec{K: 2, V: k, H: w.posHash()})
			w.pushWork(alt, w.model)
		}
	}
	w.trace = append(w.trace, dec{K: 2, V: v, H: w.posHash()})
	w.nondet = append(w.nondet, ndEntry{kind: "choose", v: v})
	return v
}

// concretize forks over the feasible values of t.
func (w *Worker) concretize(t *Term, what string) uint64 {
	if t.IsConst() {
		return t.Val
	}
	if w.inMerge > 0 {
		panic(mergeAbort{"concretize inside merged region"})
	}
	if w.concreteVec != nil {
		w.fail("concretize in concrete mode")
	}
	w.st.concretized++
	if debugSites != nil {
		debugMu.Lock()
		debugSites["concretize "+what+" @ "+w.curPos()]++
		debugMu.Unlock()
	}
	for {
		if w.pos < len(w.prefix) {
			w.flush()
			d := w.prefix[w.pos]
			w.pos++
			w.trace = append(w.trace, d)
			k := w.B.Const(uint64(d.V), t.W)
			w.checkAlign(d)
			if d.K == 3 {
				w.addPC(w.B.Eq(t, k))
				return k.Val
			}
			if d.K != 4 {
				w.fail("replay mismatch: expected concretize, got %v", d)
			}
			w.addPC(w.B.Not(w.B.Eq(t, k)))
			continue
		}
		w.flush()
		if !w.ensureModel() {
			panic(pathEnd{kind: "infeasible"})
		}
		v := w.model.Eval(t)
		k := w.B.Const(v, t.W)
		eq := w.B.Eq(t, k)
		if fv, am := w.feasibleM(w.B.Not(eq)); fv != Unsat {
			alt := append(append([]dec{}, w.trace...), dec{K: 4, V: int64(v), H: w.posHash()})
			w.pushWork(alt, am)
		}
		w.trace = append(w.trace, dec{K: 3, V: int64(v), H: w.posHash()})
		w.addPC(eq)
		return v
	}
}

func (w *Worker) assume(c *Term) {
	if c.IsTrue() {
		return
	}
	if w.inMerge > 0 {
		panic(mergeAbort{"assume inside merged region"})
	}
	w.flush()
	if c.IsFalse() {
		panic(pathEnd{kind: "pruned"})
	}
	if v, ok := w.lookupKnown(c); ok {
		if v {
			return
		}
		panic(pathEnd{kind: "pruned"})
	}
	w.addPC(c)
	if w.concreteVec != nil {
		return
	}
	if w.pos < len(w.prefix) {
		return // replaying: feasibility was established when the prefix was recorded
	}
	if !w.ensureModel() {
		panic(pathEnd{kind: "pruned"})
	}
}

// ---------- obligations ----------

func (w *Worker) guarded(c *Term) *Term {
	if len(w.guards) == 0 {
		return c
	}
	xs := make([]*Term, 0, len(w.guards)+1)
	for _, g := range w.guards {
		xs = append(xs, w.B.Not(g))
	}
	xs = append(xs, c)
	return w.B.Or(xs...)
}

func (w *Worker) oblige(c *Term, kind, id, pos string) {
	if w.inInit {
		return
	}
	c = w.guarded(c)
	if c.IsTrue() {
		if kind == "assert" {
			w.job.noteAssert(id, false)
		}
		return
	}
	if v, ok := w.lookupKnown(c); ok && v {
		if kind == "assert" {
			w.job.noteAssert(id, false)
		}
		return
	}
	if kind == "assert" {
		w.job.noteAssert(id, true)
	}
	if debugSites != nil && kind == "assert" {
		fmt.Fprintf(os.Stderr, "ASSERT %s guards=%d inMerge=%d pc=%d trace=%s cond=%s\n", id, len(w.guards), w.inMerge, len(w.pc), traceStr(w.trace), c)
	}
	w.pending = append(w.pending, obl{c, kind, id, pos})
	if c.IsFalse() && w.inMerge == 0 {
		w.flush()
	}
}

// panicNow: a definite Go panic on this path (under current guards).
func (w *Worker) panicNow(msg string) {
	w.oblige(w.B.False, "panic", msg, w.curPos())
	// in a merged region the arm is dead from here on
	panic(pathEnd{kind: "panic", msg: msg})
}

func (w *Worker) flush() {
	if len(w.pending) == 0 {
		return
	}
	if w.inMerge > 0 {
		return
	}
	pend := w.pending
	w.pending = nil
	if w.concreteVec != nil {
		for _, o := range pend {
			if o.cond.IsFalse() {
				w.obs = append(w.obs, "FAIL:"+o.kind+":"+o.id)
				if o.kind == "panic" {
					panic(pathEnd{kind: "panic", msg: o.id})
				}
			} else if !o.cond.IsTrue() {
				w.fail("symbolic obligation in concrete mode")
			}
		}
		return
	}
	if w.pos < len(w.prefix) {
		// replaying a recorded prefix: these obligations were already checked when
		// the prefix was first explored; just assume them.
		for _, o := range pend {
			if o.cond.IsFalse() {
				panic(pathEnd{kind: "panic", msg: o.id})
			}
			w.addPC(o.cond)
		}
		return
	}
	for len(pend) > 0 {
		neg := make([]*Term, len(pend))
		for i, o := range pend {
			neg[i] = w.B.Not(o.cond)
		}
		q := w.B.Or(neg...)
		w.st.oblQ++
		var v Verdict
		var m Model
		if q.IsFalse() {
			v = Unsat
		} else if w.modelOK && w.model.Eval(q) != 0 {
			v, m = Sat, w.model
		} else {
			v, m = w.query(q)
		}
		switch v {
		case Unknown:
			w.st.unknown++
			w.inconclusive("solver unknown on obligation " + pend[0].id)
		case Unsat:
			w.st.oblProved += len(pend)
			for _, o := range pend {
				w.addPC(o.cond)
			}
			pend = nil
		case Sat:
			var rest []obl
			reported := false
			for _, o := range pend {
				if m.Eval(o.cond) == 0 && !reported {
					// only the first violated obligation (program order) is certain under this model
					reported = true
					w.reportViolation(o, m)
					if o.cond.IsFalse() {
						if o.kind == "panic" {
							panic(pathEnd{kind: "panic", msg: o.id})
						}
						continue // a failed assertion does not stop the harness
					}
					w.addPC(o.cond)
				} else {
					rest = append(rest, o)
				}
			}
			if !reported {
				w.fail("model does not falsify any obligation")
			}
			pend = rest
			if !w.ensureModel() {
				panic(pathEnd{kind: "pruned", msg: "only the failing side was feasible"})
			}
		}
	}
}

func (w *Worker) reportViolation(o obl, m Model) {
	if debugSites != nil {
		fmt.Fprintf(os.Stderr, "VIOLATION %s %s cond=%s\n", o.kind, o.id, o.cond)
		for i, p := range w.pc {
			fmt.Fprintf(os.Stderr, "  pc[%d] eval=%d %s\n", i, m.Eval(p), p)
		}
		for _, n := range w.nondet {
			if n.t != nil {
				fmt.Fprintf(os.Stderr, "  %s = %d\n", n.t, m.Eval(n.t))
			}
		}
	}
	vec, kinds := w.vectorFrom(m)
	v := Violation{Kind: o.kind, ID: o.id, Pos: o.pos, Vector: vec, Kinds: kinds, Trace: append([]dec{}, w.trace...)}
	w.viols = append(w.viols, v)
}

func (w *Worker) vectorFrom(m Model) ([]int64, []string) {
	vec := make([]int64, len(w.nondet))
	kinds := make([]string, len(w.nondet))
	for i, n := range w.nondet {
		kinds[i] = n.kind
		if n.t == nil {
			vec[i] = n.v
		} else {
			vec[i] = int64(m.Eval(n.t))
			if n.kind == "int" {
				vec[i] = sext64(m.Eval(n.t), n.t.W)
			}
		}
	}
	return vec, kinds
}

func (w *Worker) nextConcrete() int64 {
	if w.cvPos >= len(w.concreteVec) {
		w.cvPos++
		return 0
	}
	v := w.concreteVec[w.cvPos]
	w.cvPos++
	return v
}

// newNondet creates a fresh symbolic value of width wd (or reads the concrete vector).
func (w *Worker) newNondet(kind string, wd int) *Term {
	if w.inMerge > 0 {
		panic(mergeAbort{"nondet inside merged region"})
	}
	if w.concreteVec != nil {
		v := w.nextConcrete()
		t := w.B.Const(uint64(v), wd)
		w.nondet = append(w.nondet, ndEntry{kind: kind, t: t})
		return t
	}
	t := w.B.Var(fmt.Sprintf("n%d_%s", len(w.nondet), kind), wd)
	w.nondet = append(w.nondet, ndEntry{kind: kind, t: t})
	return t
}

// ---------- running a function ----------


func (w *Worker) curPos() string {
	if w.curInstr == nil {
		return ""
	}
	p := w.P.prog.Fset.Position(w.curInstr.Pos())
	fn := ""
	if w.curInstr.Parent() != nil {
		fn = w.curInstr.Parent().Name()
	}
	if p.IsValid() {
		f := p.Filename
		if i := strings.LastIndex(f, "/"); i >= 0 {
			f = f[i+1:]
		}
		return fmt.Sprintf("%s:%d(%s)", f, p.Line, fn)
	}
	return fn
}

func (w *Worker) get(fr *frame, v ssa.Value) Value {
	switch v := v.(type) {
	case *ssa.Const:
		return w.constValue(v)
	case *ssa.Global:
		return Ptr{p: w.globalSlot(v)}
	case *ssa.Function:
		return &FuncV{fn: v}
	case *ssa.Builtin:
		return &FuncV{builtin: v}
	}
	if x, ok := fr.env[v]; ok {
		return x
	}
	w.fail("get: no value for %s (%T) in %s", v.Name(), v, fr.fn)
	return nil
}

func (w *Worker) constValue(c *ssa.Const) Value {
	if c.Value == nil {
		return w.zero(c.Type())
	}
	t := c.Type().Underlying()
	if b, ok := t.(*types.Basic); ok {
		switch {
		case b.Info()&types.IsBoolean != 0:
			return w.B.Bool(constant.BoolVal(c.Value))
		case b.Info()&types.IsInteger != 0:
			if isSigned(b) {
				return w.B.Const(uint64(c.Int64()), widthOf(b))
			}
			return w.B.Const(c.Uint64(), widthOf(b))
		case b.Info()&types.IsString != 0:
			return w.strConst(constant.StringVal(c.Value))
		case b.Info()&types.IsFloat != 0:
			return c.Float64()
		}
	}
	if _, ok := t.(*types.TypeParam); ok {
		w.fail("const of type param")
	}
	w.fail("constValue: %s", c)
	return nil
}

func (w *Worker) strConst(s string) StrV {
	b := make([]*Term, len(s))
	for i := 0; i < len(s); i++ {
		b[i] = w.B.Const(uint64(s[i]), 8)
	}
	return StrV{b}
}

// concreteStr returns the Go string if all bytes are constants.
func concreteStr(s StrV) (string, bool) {
	bs := make([]byte, len(s.b))
	for i, t := range s.b {
		if !t.IsConst() {
			return "", false
		}
		bs[i] = byte(t.Val)
	}
	return string(bs), true
}

func (w *Worker) globalSlot(g *ssa.Global) *Value {
	if p, ok := w.globals[g]; ok {
		return p
	}
	w.ensureInit(g.Pkg)
	if p, ok := w.globals[g]; ok {
		return p
	}
	p := new(Value)
	*p = w.zero(g.Type().(*types.Pointer).Elem())
	w.globals[g] = p
	return p
}

// ensureInit runs a package's init function (concretely, outside the journal) once.
func (w *Worker) ensureInit(pkg *ssa.Package) {
	if pkg == nil || w.initDone[pkg] {
		return
	}
	w.initDone[pkg] = true
	// allocate all globals first
	for _, m := range pkg.Members {
		if g, ok := m.(*ssa.Global); ok {
			if _, ok := w.globals[g]; !ok {
				p := new(Value)
				saveB := w.B
				w.B = w.baseB
				*p = w.zero(g.Type().(*types.Pointer).Elem())
				w.B = saveB
				w.globals[g] = p
			}
		}
	}
	if !w.P.wantInit(pkg) {
		return
	}
	init := pkg.Func("init")
	if init == nil {
		return
	}
	// run with base builder, no journal, no path state
	saveB, saveInit, saveMerge, saveGuards := w.B, w.inInit, w.inMerge, w.guards
	saveInstr := w.curInstr
	w.B, w.inInit, w.inMerge, w.guards = w.baseB, true, 0, nil
	savePending := w.pending
	w.pending = nil
	defer func() {
		w.B, w.inInit, w.inMerge, w.guards = saveB, saveInit, saveMerge, saveGuards
		w.curInstr = saveInstr
		w.pending = savePending
		if r := recover(); r != nil {
			if strings.HasPrefix(pkg.Pkg.Path(), modPath) {
				// initialisation of the code under test must succeed
				if pe, ok := r.(pathEnd); ok {
					panic(unsupportedErr{"package init of " + pkg.Pkg.Path() + " failed: " + pe.msg})
				}
				panic(r)
			}
			// library package: keep whatever was initialised so far
		}
		if pkg.Pkg.Path() == "net" {
			// net's initialiser is not interpretable as a whole; the one global the code under test
			// compares against (net.ErrClosed = poll.ErrNetClosing) is set by hand
			if g, ok := pkg.Members["ErrClosed"].(*ssa.Global); ok {
				if iv, isI := (*w.globals[g]).(IfaceV); isI && iv.t == nil {
					if pp := w.P.pkgs["internal/poll"]; pp != nil {
						if tn, ok := pp.Members["errNetClosing"].(*ssa.Type); ok {
							*w.globals[g] = IfaceV{t: tn.Type(), v: w.zero(tn.Type())}
						}
					}
				}
			}
		}
	}()
	w.call(&FuncV{fn: init}, nil, nil)
}

type callSite struct {
	instr ssa.CallInstruction
}

func (w *Worker) call(f *FuncV, args []Value, site ssa.CallInstruction) Value {
	if f == nil {
		w.panicNow("call of nil function")
	}
	if f.builtin != nil {
		return w.callBuiltin(f.builtin, args, site)
	}
	fn := f.fn
	name := fn.String()
	if h, ok := intrinsics[name]; ok {
		if debugSites != nil && strings.HasPrefix(name, zz) {
			fmt.Fprintf(os.Stderr, "CALL %s inMerge=%d guards=%d trace=%s\n", name[len(zz):], w.inMerge, len(w.guards), traceStr(w.trace))
		}
		return h(w, fn, args, site)
	}
	if fn.Origin() != nil {
		if h, ok := intrinsics[fn.Origin().String()]; ok {
			return h(w, fn, args, site)
		}
	}
	if tgt, ok := w.P.redirect[name]; ok {
		fn = tgt
	}
	if fn.Blocks == nil {
		if w.inInit {
			return w.opaqueResult(fn)
		}
		w.fail("call to function without body: %s (called from %s)", name, strings.Join(w.callers, " < "))
	}
	if w.inInit && !w.P.initCallOK(fn) {
		return w.opaqueResult(fn)
	}
	w.callers = append(w.callers, fn.Name())
	if len(w.callers) > 6 {
		w.callers = w.callers[len(w.callers)-6:]
	}
	w.depth++
	if w.depth > 200 {
		w.fail("call depth exceeded in %s", name)
	}
	defer func() { w.depth-- }()
	fr := &frame{fn: fn, env: make(map[ssa.Value]Value, 32)}
	for i, p := range fn.Params {
		if i < len(args) {
			fr.env[p] = args[i]
		}
	}
	for i, fv := range fn.FreeVars {
		fr.env[fv] = f.free[i]
	}
	save := w.curInstr
	arrs := w.run(fr, fn.Blocks[0], nil, nil, nil, false)
	w.curInstr = save
	if len(arrs) != 1 || !arrs[0].isRet {
		w.fail("internal: run returned %d arrivals", len(arrs))
	}
	return arrs[0].ret
}

func (w *Worker) opaqueResult(fn *ssa.Function) Value {
	res := fn.Signature.Results()
	switch res.Len() {
	case 0:
		return nil
	case 1:
		return w.opaqueOf(res.At(0).Type(), fn.String())
	}
	tv := make(TupleV, res.Len())
	for i := range tv {
		tv[i] = w.opaqueOf(res.At(i).Type(), fn.String())
	}
	return tv
}

func (w *Worker) opaqueOf(t types.Type, desc string) Value {
	switch t.Underlying().(type) {
	case *types.Basic, *types.Struct, *types.Array, *types.Slice, *types.Map, *types.Signature:
		if _, ok := t.Underlying().(*types.Basic); ok && !isIntOrBool(t) && !isString(t) && !isFloat(t) {
			return OpaqueV{desc}
		}
		return w.zero(t)
	case *types.Interface:
		return IfaceV{}
	}
	return OpaqueV{desc}
}


func (w *Worker) describe(v Value) string {
	switch v := v.(type) {
	case IfaceV:
		if v.t == nil {
			return "nil"
		}
		return v.t.String() + ":" + w.describe(v.v)
	case StrV:
		if s, ok := concreteStr(v); ok {
			return s
		}
		return "<symbolic string>"
	case *Term:
		return v.String()
	}
	return fmt.Sprintf("%T", v)
}

var debugSites map[string]int
var debugMu sync.Mutex
