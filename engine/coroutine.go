package main

// Cooperative goroutines: a `go f()` whose callee is listed in the job's
// coroutine_funcs becomes a coroutine that runs only when the main thread calls
// zzv.RunUntilIdle (or blocks), until it blocks in (*sync.Cond).Wait or returns.
// Scheduling is deterministic (creation order, run until blocked): this explores
// no interleavings by itself - which events are pending when a coroutine wakes is
// decided by the harness - but lets loops such as Matcher.Loop run unmodified.

import (
	"golang.org/x/tools/go/ssa"
)

type coroutine struct {
	id       int
	resume   chan bool
	done     bool
	blocked  bool
	waitOn   *Value // identity of the sync.Cond it waits on
	depth    int
	curInstr ssa.Instruction
	started  bool
}

type coKilled struct{}

func (w *Worker) spawn(fn *FuncV, args []Value, site ssa.CallInstruction) {
	if w.inMerge > 0 {
		panic(mergeAbort{"go statement in merged region"})
	}
	c := &coroutine{id: len(w.cos), resume: make(chan bool)}
	w.cos = append(w.cos, c)
	go func() {
		if ok := <-c.resume; !ok {
			return
		}
		defer func() {
			if r := recover(); r != nil {
				if _, killed := r.(coKilled); killed {
					return
				}
				w.coErr = r
			}
			c.done = true
			w.yieldCh <- struct{}{}
		}()
		w.depth, w.curInstr = 0, nil
		w.call(fn, args, site)
	}()
}

// runCo resumes c until it blocks or finishes (called from the main thread only).
func (w *Worker) runCo(c *coroutine) {
	saveDepth, saveInstr, saveCur := w.depth, w.curInstr, w.cur
	w.cur = c
	if c.started {
		w.depth, w.curInstr = c.depth, c.curInstr
	}
	c.started = true
	c.resume <- true
	<-w.yieldCh
	w.depth, w.curInstr, w.cur = saveDepth, saveInstr, saveCur
	if w.coErr != nil {
		r := w.coErr
		w.coErr = nil
		panic(r)
	}
}

// coYield parks the running coroutine until the scheduler resumes it.
func (w *Worker) coYield() {
	c := w.cur
	c.depth, c.curInstr = w.depth, w.curInstr
	w.yieldCh <- struct{}{}
	if ok := <-c.resume; !ok {
		panic(coKilled{})
	}
}

func (w *Worker) runUntilIdle() {
	if w.cur != nil {
		w.fail("RunUntilIdle called from a coroutine")
	}
	if w.inMerge > 0 {
		panic(mergeAbort{"RunUntilIdle in merged region"})
	}
	for rounds := 0; rounds < 10000; rounds++ {
		progressed := false
		for _, c := range w.cos {
			if !c.done && !c.blocked {
				w.runCo(c)
				progressed = true
			}
		}
		if !progressed {
			return
		}
	}
	w.fail("coroutines did not become idle")
}

func (w *Worker) killCoroutines() {
	for _, c := range w.cos {
		if !c.done {
			c.done = true
			c.resume <- false
		}
	}
	w.cos = nil
	w.cur = nil
	w.coErr = nil
}

func condWait(w *Worker, _ *ssa.Function, args []Value, _ ssa.CallInstruction) Value {
	if w.inMerge > 0 {
		panic(mergeAbort{"sync.Cond.Wait in merged region"})
	}
	p := args[0].(Ptr)
	if w.cur == nil {
		// main thread: let the others run; a spurious wake-up is allowed by sync.Cond
		w.runUntilIdle()
		return nil
	}
	w.cur.blocked = true
	w.cur.waitOn = p.p
	w.coYield()
	return nil
}

func condWake(w *Worker, _ *ssa.Function, args []Value, _ ssa.CallInstruction) Value {
	p := args[0].(Ptr)
	for _, c := range w.cos {
		if c.blocked && c.waitOn == p.p {
			c.blocked = false
		}
	}
	return nil
}
