package main

import (
	"runtime/pprof"
	"encoding/json"
	"flag"
	"fmt"
	"os"
	"runtime/debug"
	"sort"
	"strings"
	"sync"
	"time"

	"golang.org/x/tools/go/ssa"
)

type jobStats struct {
	feasQ, oblQ, oblProved, unknown, merges, mergeAborts, symIdx, concretized, realLib, cacheHits int
}

type Job struct {
	ID           string            `json:"id"`
	Pkg          string            `json:"pkg"`
	Func         string            `json:"func"`
	Cfg          map[string]int    `json:"cfg"`
	CfgS         map[string]string `json:"cfgs"`
	Unwind       int               `json:"unwind"`
	Merge        bool              `json:"merge"`
	MergeLimit   int               `json:"merge_limit"`
	NoMergeFuncs []string          `json:"no_merge_funcs"`
	MaxPaths     int               `json:"max_paths"`
	MaxSteps     int64             `json:"max_steps"`
	TimeoutS     int               `json:"timeout_s"`
	MapOrder     bool              `json:"map_order"`
	GoInline     bool              `json:"go_inline"`
	CoroutineFuncs []string        `json:"coroutine_funcs"`
	MaxViol      int               `json:"max_viol"`
	NoCache      bool              `json:"no_cache"`
	NSamples     int               `json:"nsamples"`
	Vectors      [][]int64         `json:"vectors,omitempty"` // concrete mode

	fn      *ssa.Function
	mu      sync.Mutex
	stats   jobStats
	res     JobResult
	start   time.Time
	stopped bool
	started bool
	end     time.Time
	active  int
	queued  int
	asserts map[string]*assertStat
	reach   map[string]int
	violKey map[string]int
	unwinds map[string]int
}

type assertStat struct {
	Trivial  int `json:"folded_true"`
	Symbolic int `json:"solver_checked"`
}

type JobResult struct {
	ID         string                 `json:"id"`
	Status     string                 `json:"status"` // ok, violated, inconclusive, vacuous
	Reason     string                 `json:"reason,omitempty"`
	Paths      int                    `json:"paths"`
	Pruned     int                    `json:"pruned"`
	Infeasible int                    `json:"infeasible"`
	PanicPaths int                    `json:"panic_paths"`
	Errors     int                    `json:"errors"`
	Steps      int64                  `json:"steps"`
	Queries    map[string]int         `json:"queries"`
	Asserts    map[string]*assertStat `json:"asserts"`
	Reach      map[string]int         `json:"reach"`
	Violations []Violation            `json:"violations,omitempty"`
	Samples    []PathSample           `json:"samples,omitempty"`
	WallS      float64                `json:"wall_s"`
	SolverS    float64                `json:"solver_s"`
	Obs        [][]string             `json:"obs,omitempty"`
	MaxPC      int                    `json:"max_pc"`
	Unwinds    map[string]int         `json:"unwind_exceeded,omitempty"`
	DeclAsserts []string              `json:"declared_asserts,omitempty"`
	DeclReach  []string               `json:"declared_reach,omitempty"`
	Nontrivial int                    `json:"nontrivial_paths"`
}

type PathSample struct {
	Trace   string  `json:"decisions"`
	PCSize  int     `json:"pc_conjuncts"`
	Vector  []int64 `json:"model_vector"`
	Kinds   []string `json:"kinds,omitempty"`
	End     string  `json:"end"`
}

func (j *Job) noteAssert(id string, symbolic bool) {
	j.mu.Lock()
	a := j.asserts[id]
	if a == nil {
		a = &assertStat{}
		j.asserts[id] = a
	}
	if symbolic {
		a.Symbolic++
	} else {
		a.Trivial++
	}
	j.mu.Unlock()
}

func (j *Job) unwindHit(b *ssa.BasicBlock) {
	j.mu.Lock()
	j.unwinds[fmt.Sprintf("%s#%d", b.Parent().Name(), b.Index)]++
	j.mu.Unlock()
}

type workItem struct {
	job    *Job
	model  Model
	prefix []dec
	vec    []int64 // concrete mode
	conc   bool
}

type queue struct {
	mu     sync.Mutex
	cond   *sync.Cond
	items  []workItem   // initial items (one per job / vector), in job order
	perJob [][]workItem // work of each job, LIFO inside a job; jobs are served in order
	order  map[*Job]int
	active int
}

func (q *queue) slot(j *Job) int {
	if q.order == nil {
		q.order = map[*Job]int{}
	}
	k, ok := q.order[j]
	if !ok {
		k = len(q.perJob)
		q.order[j] = k
		q.perJob = append(q.perJob, nil)
	}
	return k
}

func (q *queue) push(it workItem) {
	q.mu.Lock()
	k := q.slot(it.job)
	q.perJob[k] = append(q.perJob[k], it)
	it.job.queued++
	q.mu.Unlock()
	q.cond.Signal()
}

func (q *queue) pop() (workItem, bool) {
	q.mu.Lock()
	defer q.mu.Unlock()
	for {
		for k := range q.perJob {
			if n := len(q.perJob[k]); n > 0 {
				it := q.perJob[k][n-1]
				q.perJob[k] = q.perJob[k][:n-1]
				it.job.queued--
				it.job.active++
				q.active++
				return it, true
			}
		}
		if q.active == 0 {
			q.cond.Broadcast()
			return workItem{}, false
		}
		q.cond.Wait()
	}
}

func (q *queue) done() {
	q.mu.Lock()
	q.active--
	q.cond.Broadcast()
	q.mu.Unlock()
}

func newWorker(P *Program, solverKind SolverKind, timeoutMs int, logf *os.File) (*Worker, error) {
	s, err := NewSolver(solverKind, timeoutMs)
	if err != nil {
		return nil, err
	}
	if logf != nil {
		s.log = logf
	}
	w := &Worker{P: P, S: s, globals: map[*ssa.Global]*Value{}, initDone: map[*ssa.Package]bool{}}
	w.baseB = NewBuilder(nil)
	w.B = w.baseB
	w.known = map[*Term]bool{}
	w.loopCnt = map[*ssa.BasicBlock]int{}
	return w, nil
}

func (w *Worker) runItem(it workItem, q *queue) {
	job := it.job
	job.mu.Lock()
	if job.stopped {
		job.mu.Unlock()
		return
	}
	if !job.started {
		job.started = true
		job.start = time.Now()
	}
	if job.TimeoutS > 0 && time.Since(job.start) > time.Duration(job.TimeoutS)*time.Second {
		job.stopped = true
		job.res.Status = "inconclusive"
		job.res.Reason = fmt.Sprintf("time limit %ds reached with paths outstanding", job.TimeoutS)
		job.mu.Unlock()
		return
	}
	if job.MaxPaths > 0 && job.res.Paths+job.res.Pruned+job.res.Infeasible >= job.MaxPaths {
		job.stopped = true
		job.res.Status = "inconclusive"
		job.res.Reason = fmt.Sprintf("path limit %d reached", job.MaxPaths)
		job.mu.Unlock()
		return
	}
	job.mu.Unlock()

	w.job = job
	w.B = NewBuilder(w.baseB)
	w.known = map[*Term]bool{}
	w.knownLog = nil
	w.pc = nil
	w.uf = map[string]string{}
	w.comp = map[string][]int{}
	w.dirty = map[string]bool{}
	w.model, w.modelOK = Model{}, true
	if it.model != nil {
		w.model = it.model
	}
	w.prefix, w.pos, w.trace = it.prefix, 0, nil
	w.nondet = nil
	w.pending = nil
	w.guards = nil
	w.inMerge = 0
	w.loopCnt = map[*ssa.BasicBlock]int{}
	w.steps = 0
	w.yieldCh = make(chan struct{})
	w.depth = 0
	w.viols = nil
	w.clock = 1000
	w.st = jobStats{}
	w.newWork = nil
	w.obs = nil
	w.frozen = nil
	w.reached = nil
	w.concreteVec = nil
	w.cvPos = 0
	if it.conc {
		w.concreteVec = it.vec
		if w.concreteVec == nil {
			w.concreteVec = []int64{}
		}
	}
	end := "done"
	errMsg := ""
	t0 := w.S.Time
	func() {
		defer func() {
			if r := recover(); r != nil {
				switch e := r.(type) {
				case pathEnd:
					end = e.kind
					if e.kind == "panic" {
						// make sure the pending panic obligation is checked
						func() {
							defer func() {
								if r2 := recover(); r2 != nil {
									if _, ok := r2.(pathEnd); !ok {
										if ue, ok := r2.(unsupportedErr); ok {
											end, errMsg = "error", ue.msg
										} else {
											panic(r2)
										}
									}
								}
							}()
							w.inMerge = 0
							w.guards = nil
							w.flush()
						}()
					}
				case unsupportedErr:
					end, errMsg = "error", e.msg+" @ "+w.curPos()
				case mergeAbort:
					end, errMsg = "error", "internal: mergeAbort escaped: "+e.why
				default:
					end, errMsg = "error", fmt.Sprintf("engine panic: %v\n%s", r, debug.Stack())
				}
			}
		}()
		w.ensureInit(job.fn.Pkg)
		w.call(&FuncV{fn: job.fn}, nil, nil)
		w.flush()
		if !it.conc && !w.modelOK && w.wantSample() {
			w.ensureModel()
		}
	}()
	var sampleVec []int64
	var sampleKinds []string
	if end == "done" && !it.conc && w.modelOK {
		sampleVec, sampleKinds = w.vectorFrom(w.model)
	}
	w.killCoroutines()
	w.rollback(0)
	solverT := w.S.Time - t0

	job.mu.Lock()
	defer job.mu.Unlock()
	job.res.Steps += w.steps
	job.res.SolverS += solverT.Seconds()
	if len(w.pc) > job.res.MaxPC {
		job.res.MaxPC = len(w.pc)
	}
	switch end {
	case "done":
		job.res.Paths++
		for _, id := range w.reached {
			job.reach[id]++
		}
	case "pruned":
		job.res.Pruned++
	case "infeasible":
		job.res.Infeasible++
	case "panic":
		job.res.PanicPaths++
		for _, id := range w.reached {
			job.reach[id]++
		}
	case "error":
		job.res.Errors++
		if job.res.Reason == "" || job.res.Status != "inconclusive" {
			job.res.Status = "inconclusive"
			job.res.Reason = errMsg
		}
		if !strings.HasPrefix(errMsg, "UNWIND") || job.res.Errors > 50 {
			job.stopped = true
		}
	}
	if it.conc {
		job.res.Obs = append(job.res.Obs, append([]string{"end=" + end}, w.obs...))
	}
	for _, v := range w.viols {
		k := v.Kind + "/" + v.ID + "/" + v.Pos
		job.violKey[k]++
		if job.violKey[k] <= 3 {
			job.res.Violations = append(job.res.Violations, v)
		}
		if job.MaxViol > 0 && len(job.res.Violations) >= job.MaxViol {
			job.stopped = true
		}
	}
	if end == "done" && !it.conc && (w.st.oblQ > 0 || w.st.feasQ > 0) {
		job.res.Nontrivial++
	}
	nsmp := job.NSamples
	if nsmp == 0 {
		nsmp = 3
	}
	if len(job.res.Samples) < nsmp && end == "done" && !it.conc && sampleVec != nil && len(w.viols) == 0 && (len(job.res.Samples) < 2 || traceHash(w.trace)%5 == 0) {
		job.res.Samples = append(job.res.Samples, PathSample{Trace: traceStr(w.trace), PCSize: len(w.pc), Vector: sampleVec, Kinds: sampleKinds, End: end})
	}
	job.stats.add(&w.st)
	if !job.stopped {
		for _, p := range w.newWork {
			q.push(workItem{job: job, prefix: p.prefix, model: p.model})
		}
	}
}

func (w *Worker) wantSample() bool {
	n := w.job.NSamples
	if n == 0 {
		n = 3
	}
	w.job.mu.Lock()
	defer w.job.mu.Unlock()
	return len(w.job.res.Samples) < n
}

func traceHash(t []dec) uint32 {
	h := uint32(2166136261)
	for _, d := range t {
		h = (h ^ uint32(d.K)) * 16777619
		h = (h ^ uint32(d.V)) * 16777619
	}
	return h >> 7
}

func traceStr(t []dec) string {
	var sb strings.Builder
	for i, d := range t {
		if i > 120 {
			sb.WriteString("…")
			break
		}
		switch d.K {
		case 0:
			sb.WriteString("F")
		case 1:
			sb.WriteString("T")
		case 2:
			fmt.Fprintf(&sb, "[%d]", d.V)
		case 3:
			fmt.Fprintf(&sb, "(=%d)", d.V)
		case 4:
			fmt.Fprintf(&sb, "(≠%d)", d.V)
		}
	}
	return sb.String()
}

func (s *jobStats) add(o *jobStats) {
	s.feasQ += o.feasQ
	s.oblQ += o.oblQ
	s.oblProved += o.oblProved
	s.unknown += o.unknown
	s.merges += o.merges
	s.mergeAborts += o.mergeAborts
	s.symIdx += o.symIdx
	s.concretized += o.concretized
	s.realLib += o.realLib
	s.cacheHits += o.cacheHits
}

func main() {
	if len(os.Args) > 1 && os.Args[1] == "lift" {
		liftMain(os.Args[2:])
		return
	}
	repo := flag.String("repo", "/repo", "repository root")
	overlayF := flag.String("overlay", "", "JSON file: {virtual path: real path}")
	jobsF := flag.String("jobs", "", "JSON file with job list")
	outF := flag.String("out", "", "results JSON")
	workers := flag.Int("workers", 16, "worker count")
	solver := flag.String("solver", "z3", "z3 | z3new | cvc5")
	timeoutMs := flag.Int("qtimeout", 60000, "per-query timeout (ms)")
	logF := flag.String("smtlog", "", "write full SMT log of worker 0 here")
	xdir := flag.String("xdir", "", "dump every -xevery-th solver query here for cross-solver checking")
	xevery := flag.Int("xevery", 50, "sampling stride for -xdir")
	patterns := flag.String("patterns", "./src,./src/algo,./src/util", "package patterns")
	debug.SetGCPercent(400)
	debug.SetMemoryLimit(20 << 30)
	cpuprof := flag.String("cpuprofile", "", "write CPU profile")
	flag.Parse()
	if *cpuprof != "" {
		f, _ := os.Create(*cpuprof)
		pprof.StartCPUProfile(f)
		defer pprof.StopCPUProfile()
	}
	if os.Getenv("SYMGO_DEBUG") != "" {
		debugSites = map[string]int{}
	}

	t0 := time.Now()
	overlay := map[string]string{}
	if *overlayF != "" {
		data, err := os.ReadFile(*overlayF)
		if err != nil {
			fatal(err)
		}
		if err := json.Unmarshal(data, &overlay); err != nil {
			fatal(err)
		}
	}
	P, err := Load(*repo, overlay, strings.Split(*patterns, ","))
	if err != nil {
		fatal(err)
	}
	P.LoadSecs = time.Since(t0).Seconds()
	var jobs []*Job
	data, err := os.ReadFile(*jobsF)
	if err != nil {
		fatal(err)
	}
	if err := json.Unmarshal(data, &jobs); err != nil {
		fatal(err)
	}
	kind := Z3
	switch *solver {
	case "z3new":
		kind = Z3New
	case "cvc5":
		kind = CVC5
	}
	q := &queue{}
	q.cond = sync.NewCond(&q.mu)
	for _, j := range jobs {
		pkg := P.pkgs[j.Pkg]
		if pkg == nil {
			fatal(fmt.Errorf("job %s: package %s not loaded", j.ID, j.Pkg))
		}
		j.fn = pkg.Func(j.Func)
		if j.fn == nil {
			fatal(fmt.Errorf("job %s: function %s not found", j.ID, j.Func))
		}
		if j.Unwind == 0 {
			j.Unwind = 4096
		}
		if j.MergeLimit == 0 {
			j.MergeLimit = 60
		}
		if j.MaxSteps == 0 {
			j.MaxSteps = 50_000_000
		}
		j.asserts = map[string]*assertStat{}
		j.reach = map[string]int{}
		j.violKey = map[string]int{}
		j.unwinds = map[string]int{}
		j.res.ID = j.ID
		j.res.Status = "ok"
		j.res.DeclAsserts, j.res.DeclReach = P.harnessIDs(j.fn)
		sort.Strings(j.res.DeclAsserts)
		sort.Strings(j.res.DeclReach)
		j.start = time.Now()
		if len(j.Vectors) > 0 {
			for _, v := range j.Vectors {
				q.items = append(q.items, workItem{job: j, vec: v, conc: true})
				j.queued++
			}
		} else {
			q.items = append(q.items, workItem{job: j})
			j.queued++
		}
	}
	for _, it := range q.items {
		k := q.slot(it.job)
		q.perJob[k] = append(q.perJob[k], it)
	}
	q.items = nil
	if os.Getenv("SYMGO_PROGRESS") != "" {
		go func() {
			for {
				time.Sleep(30 * time.Second)
				var sb strings.Builder
				for _, j := range jobs {
					j.mu.Lock()
					if j.started && j.queued > 0 && !j.stopped {
						fmt.Fprintf(&sb, "  %s: paths=%d queued=%d t=%.0fs\n", j.ID, j.res.Paths, j.queued, time.Since(j.start).Seconds())
					}
					j.mu.Unlock()
				}
				fmt.Fprintf(os.Stderr, "PROGRESS %.0fs\n%s", time.Since(t0).Seconds(), sb.String())
			}
		}()
	}
	var wg sync.WaitGroup
	var smtlog *os.File
	if *logF != "" {
		smtlog, _ = os.Create(*logF)
	}
	var totalQ, satN, unsatN, unkN int
	var solverT time.Duration
	var tmu sync.Mutex
	for i := 0; i < *workers; i++ {
		wg.Add(1)
		go func(i int) {
			defer wg.Done()
			var lf *os.File
			if i == 0 {
				lf = smtlog
			}
			w, err := newWorker(P, kind, *timeoutMs, lf)
			if err != nil {
				fatal(err)
			}
			defer w.S.Close()
			w.S.XDir, w.S.XEvery, w.S.xid = *xdir, *xevery, fmt.Sprint(i)
			for {
				it, ok := q.pop()
				if !ok {
					break
				}
				w.runItem(it, q)
				q.mu.Lock()
				it.job.active--
				if it.job.active == 0 && it.job.queued == 0 {
					it.job.end = time.Now()
				}
				q.mu.Unlock()
				q.done()
			}
			tmu.Lock()
			totalQ += w.S.Queries
			satN += w.S.SatN
			unsatN += w.S.UnsatN
			unkN += w.S.UnkN
			solverT += w.S.Time
			tmu.Unlock()
		}(i)
	}
	wg.Wait()
	if debugSites != nil {
		type kv struct {
			k string
			v int
		}
		var kvs []kv
		for k, v := range debugSites {
			kvs = append(kvs, kv{k, v})
		}
		sort.Slice(kvs, func(i, j int) bool { return kvs[i].v > kvs[j].v })
		for i, e := range kvs {
			if i > 40 {
				break
			}
			fmt.Fprintf(os.Stderr, "%8d %s\n", e.v, e.k)
		}
	}
	var results []JobResult
	for _, j := range jobs {
		j.finish()
		results = append(results, j.res)
	}
	out := map[string]interface{}{
		"jobs":       results,
		"load_s":     P.LoadSecs,
		"wall_s":     time.Since(t0).Seconds(),
		"solver":     kind.String(),
		"queries":    totalQ,
		"sat":        satN,
		"unsat":      unsatN,
		"unknown":    unkN,
		"solver_cpu_s": solverT.Seconds(),
		"workers":    *workers,
	}
	enc, _ := json.MarshalIndent(out, "", " ")
	if *outF != "" {
		os.WriteFile(*outF, enc, 0644)
	} else {
		os.Stdout.Write(enc)
	}
}

func fatal(err error) {
	fmt.Fprintln(os.Stderr, "symgo:", err)
	os.Exit(3)
}


func (j *Job) finish() {
	j.res.WallS = time.Since(j.start).Seconds()
	if !j.end.IsZero() && j.started {
		j.res.WallS = j.end.Sub(j.start).Seconds()
	}
	j.res.Asserts = j.asserts
	j.res.Reach = j.reach
	j.res.Unwinds = j.unwinds
	j.res.Queries = map[string]int{
		"feasibility": j.stats.feasQ, "obligation_batches": j.stats.oblQ, "obligations_proved": j.stats.oblProved,
		"unknown": j.stats.unknown, "merges": j.stats.merges, "merge_aborts": j.stats.mergeAborts,
		"symbolic_index_ops": j.stats.symIdx, "concretizations": j.stats.concretized, "real_library_calls": j.stats.realLib, "query_cache_hits": j.stats.cacheHits,
	}
	if j.res.Status == "ok" && len(j.res.Violations) > 0 {
		j.res.Status = "violated"
	}
	if j.res.Status == "ok" && j.stats.unknown > 0 {
		j.res.Status = "inconclusive"
		j.res.Reason = "solver returned unknown"
	}
	if j.res.Status == "ok" && len(j.Vectors) == 0 && j.res.Paths+j.res.PanicPaths == 0 {
		j.res.Status = "vacuous"
		j.res.Reason = "no path completed"
	}
}
