package main

// Path condition management: constraint-independence slicing (only the PC
// conjuncts transitively sharing variables with the queried condition are
// sent), a per-path model kept valid incrementally, and a cross-path cache of
// small queries keyed by their canonical text.

import (
	"fmt"
	"sort"
	"strings"
	"sync"
)

type workAlt struct {
	prefix []dec
	model  Model
}

func (w *Worker) pushWork(prefix []dec, m Model) {
	var cp Model
	if m != nil {
		cp = make(Model, len(m))
		for k, v := range m {
			cp[k] = v
		}
	}
	w.newWork = append(w.newWork, workAlt{prefix, cp})
}

func (w *Worker) find(v string) string {
	for {
		p, ok := w.uf[v]
		if !ok || p == v {
			if !ok {
				w.uf[v] = v
			}
			return v
		}
		gp, ok2 := w.uf[p]
		if ok2 && gp != p {
			w.uf[v] = gp
		}
		v = p
	}
}

// addPC appends c to the path condition (no feasibility check).
func (w *Worker) addPC(c *Term) {
	if c.IsTrue() {
		return
	}
	idx := len(w.pc)
	w.pc = append(w.pc, c)
	w.recordKnown(c, true)
	if w.inMerge == 0 {
		w.learnConst(c)
	}
	vars := c.Vars()
	if len(vars) > 0 {
		root := w.find(vars[0].Name)
		for _, v := range vars[1:] {
			r2 := w.find(v.Name)
			if r2 != root {
				// union: smaller list into larger
				if len(w.comp[r2]) > len(w.comp[root]) {
					root, r2 = r2, root
				}
				w.uf[r2] = root
				w.comp[root] = append(w.comp[root], w.comp[r2]...)
				delete(w.comp, r2)
			}
		}
		w.comp[root] = append(w.comp[root], idx)
	}
	if w.modelOK && w.model.Eval(c) == 0 {
		w.modelOK = false
	}
	if !w.modelOK {
		for _, v := range vars {
			w.dirty[v.Name] = true
		}
	}
}

// slice returns the PC conjuncts connected to the given variables.
func (w *Worker) slice(seed []*Term) []*Term {
	roots := map[string]bool{}
	for _, v := range seed {
		roots[w.find(v.Name)] = true
	}
	var idxs []int
	for r := range roots {
		idxs = append(idxs, w.comp[r]...)
	}
	sort.Ints(idxs)
	out := make([]*Term, 0, len(idxs))
	for _, i := range idxs {
		out = append(out, w.pc[i])
	}
	return out
}

type cacheEntry struct {
	v    Verdict
	vals []uint64 // by canonical variable order
}

var (
	qcache   = map[string]cacheEntry{}
	qcacheMu sync.RWMutex
	qcHits   int
	qcMiss   int
)

func qcacheLen() int {
	qcacheMu.RLock()
	defer qcacheMu.RUnlock()
	return len(qcache)
}

// canon renders conj with variables renamed in order of first occurrence; returns "" if too large.
func canon(conj []*Term, limit int) (string, []*Term) {
	var sb strings.Builder
	names := map[*Term]int{}
	var order []*Term
	memo := map[*Term]int{}
	n := 0
	var rec func(t *Term) bool
	rec = func(t *Term) bool {
		if n > limit {
			return false
		}
		if t.Op == OpConst {
			fmt.Fprintf(&sb, "c%d:%d", t.W, t.Val)
			return true
		}
		if t.Op == OpVar {
			k, ok := names[t]
			if !ok {
				k = len(order)
				names[t] = k
				order = append(order, t)
			}
			fmt.Fprintf(&sb, "v%d:%d", k, t.W)
			return true
		}
		if k, ok := memo[t]; ok {
			fmt.Fprintf(&sb, "#%d", k)
			return true
		}
		n++
		fmt.Fprintf(&sb, "(%d.%d.%d.%d", t.Op, t.W, t.A, t.B)
		for _, a := range t.Args {
			sb.WriteByte(' ')
			if !rec(a) {
				return false
			}
		}
		sb.WriteByte(')')
		memo[t] = len(memo)
		return true
	}
	for _, c := range conj {
		if !rec(c) {
			return "", nil
		}
		sb.WriteByte(';')
	}
	return sb.String(), order
}

// query decides (slice of PC connected to extra) ∧ extra; on sat the model is the
// current model overridden with the values of the sliced variables.
func (w *Worker) query(extra ...*Term) (Verdict, Model) {
	var seed []*Term
	for _, e := range extra {
		seed = append(seed, e.Vars()...)
	}
	if !w.modelOK {
		// components broken by earlier additions must be re-solved too
		for name := range w.dirty {
			seed = append(seed, w.B.Var(name, w.varWidth(name)))
		}
	}
	conj := append(w.slice(seed), extra...)
	varSet := map[*Term]bool{}
	var vars []*Term
	for _, c := range conj {
		for _, v := range c.Vars() {
			if !varSet[v] {
				varSet[v] = true
				vars = append(vars, v)
			}
		}
	}
	key, order := "", []*Term(nil)
	if !w.job.NoCache {
		key, order = canon(conj, 400)
	}
	var verdict Verdict
	var vals Model
	hit := false
	if key != "" {
		qcacheMu.RLock()
		ce, ok := qcache[key]
		qcacheMu.RUnlock()
		if ok {
			hit = true
			verdict = ce.v
			if ce.v == Sat {
				vals = Model{}
				for i, v := range order {
					vals[v.Name] = ce.vals[i]
				}
			}
			w.st.cacheHits++
		}
	}
	if !hit {
		verdict, vals = w.S.Solve(conj, vars)
		if key != "" && verdict != Unknown && len(key) <= 4096 && qcacheLen() < 400000 {
			ce := cacheEntry{v: verdict}
			if verdict == Sat {
				ce.vals = make([]uint64, len(order))
				for i, v := range order {
					ce.vals[i] = vals[v.Name]
				}
			}
			qcacheMu.Lock()
			qcache[key] = ce
			qcacheMu.Unlock()
		}
	}
	if verdict != Sat {
		return verdict, nil
	}
	// full model: current values overridden by the slice's
	m := make(Model, len(w.model)+len(vals))
	for k, v := range w.model {
		m[k] = v
	}
	for _, v := range vars {
		m[v.Name] = vals[v.Name]
	}
	return Sat, m
}

func (w *Worker) varWidth(name string) int {
	for _, n := range w.nondet {
		if n.t != nil && n.t.Op == OpVar && n.t.Name == name {
			return n.t.W
		}
		if n.t != nil {
			for _, v := range n.t.Vars() {
				if v.Name == name {
					return v.W
				}
			}
		}
	}
	for _, p := range w.pc {
		for _, v := range p.Vars() {
			if v.Name == name {
				return v.W
			}
		}
	}
	return 8
}

// feasibleM checks PC ∧ c; on sat returns a model of PC ∧ c.
func (w *Worker) feasibleM(c *Term) (Verdict, Model) {
	if c.IsTrue() {
		return Sat, w.model
	}
	if c.IsFalse() {
		return Unsat, nil
	}
	if w.modelOK && w.model.Eval(c) != 0 {
		return Sat, w.model
	}
	w.st.feasQ++
	if debugSites != nil {
		debugMu.Lock()
		debugSites["feasQ @ "+w.curPos()]++
		debugMu.Unlock()
	}
	v, m := w.query(c)
	if v == Unknown {
		w.st.unknown++
	}
	return v, m
}

func (w *Worker) feasible(c *Term) Verdict {
	v, _ := w.feasibleM(c)
	return v
}

func (w *Worker) ensureModel() bool {
	if w.modelOK {
		return true
	}
	w.st.feasQ++
	v, m := w.query()
	if v == Sat {
		w.model, w.modelOK = m, true
		w.dirty = map[string]bool{}
		return true
	}
	if v == Unknown {
		w.st.unknown++
		w.inconclusive("solver unknown on path condition")
	}
	return false
}

// learnConst records term = constant facts implied by a new PC conjunct so that
// later terms built from them fold.
func (w *Worker) learnConst(c *Term) {
	switch c.Op {
	case OpEq:
		x, y := c.Args[0], c.Args[1]
		if y.IsConst() && !x.IsConst() {
			w.B.SetRep(x, y)
		} else if x.IsConst() && !y.IsConst() {
			w.B.SetRep(y, x)
		}
	case OpBAnd:
		for _, a := range c.Args {
			w.learnConst(a)
		}
	case OpBNot:
		if c.Args[0].W == 0 && c.Args[0].Op != OpConst {
			w.B.SetRep(c.Args[0], w.B.False)
		}
		return
	}
	if c.W == 0 && c.Op != OpConst && c.Op != OpBNot {
		w.B.SetRep(c, w.B.True)
	}
}
