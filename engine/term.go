package main

// Term DAG: fixed-width bit-vectors (1..64 bits) and Booleans (W == 0),
// hash-consed, with eager constant folding and local simplification.

import (
	"fmt"
	"strconv"
	"math/bits"
	"sort"
	"strings"
)

type Op uint8

const (
	OpConst Op = iota // Val, W (W==0: Bool, Val 0/1)
	OpVar             // Name, W
	OpAdd
	OpSub
	OpMul
	OpUDiv
	OpSDiv
	OpURem
	OpSRem
	OpAnd
	OpOr
	OpXor
	OpNot // bvnot
	OpNeg
	OpShl
	OpLShr
	OpAShr
	OpZExt    // Args[0], to W
	OpSExt    // Args[0], to W
	OpExtract // Args[0], A=hi, B=lo
	OpConcat  // Args[0] high, Args[1] low
	OpIte     // Args: c, a, b (bv or bool)
	OpEq      // -> Bool
	OpUlt
	OpUle
	OpSlt
	OpSle
	OpBAnd // n-ary
	OpBOr  // n-ary
	OpBNot
)

var opNames = map[Op]string{
	OpAdd: "bvadd", OpSub: "bvsub", OpMul: "bvmul", OpUDiv: "bvudiv", OpSDiv: "bvsdiv",
	OpURem: "bvurem", OpSRem: "bvsrem", OpAnd: "bvand", OpOr: "bvor", OpXor: "bvxor",
	OpNot: "bvnot", OpNeg: "bvneg", OpShl: "bvshl", OpLShr: "bvlshr", OpAShr: "bvashr",
	OpConcat: "concat", OpIte: "ite", OpEq: "=", OpUlt: "bvult", OpUle: "bvule",
	OpSlt: "bvslt", OpSle: "bvsle", OpBAnd: "and", OpBOr: "or", OpBNot: "not",
}

type Term struct {
	Op   Op
	W    int // 0 = Bool
	Args []*Term
	Val  uint64
	Name string
	A, B int
	id   int
	// cached analyses
	rngOK    bool
	lo, hi   uint64 // unsigned range
	domOK    bool
	dom      []uint64 // nil = too large / unknown
	vars     []*Term  // lazily computed free variables (sorted by id)
	varsDone bool
}

func (t *Term) IsConst() bool { return t.Op == OpConst }
func (t *Term) IsBool() bool  { return t.W == 0 }
func (t *Term) IsTrue() bool  { return t.Op == OpConst && t.W == 0 && t.Val == 1 }
func (t *Term) IsFalse() bool { return t.Op == OpConst && t.W == 0 && t.Val == 0 }

func mask(w int) uint64 {
	if w >= 64 {
		return ^uint64(0)
	}
	return (uint64(1) << uint(w)) - 1
}

func sext64(v uint64, w int) int64 {
	if w >= 64 {
		return int64(v)
	}
	sh := uint(64 - w)
	return int64(v<<sh) >> sh
}

// Builder hash-conses terms. A builder may have a frozen parent (terms created
// during package initialisation) so that per-path terms can be dropped.
type constKey struct {
	w int
	v uint64
}

type Builder struct {
	parent *Builder
	tab    map[string]*Term
	ctr    *int // id counter shared by a base builder and the per-path builders derived from it
	rep    map[*Term]*Term // terms proven equal to a constant under the current path condition
	consts map[constKey]*Term
	True   *Term
	False  *Term
}

func NewBuilder(parent *Builder) *Builder {
	b := &Builder{parent: parent, tab: map[string]*Term{}, consts: map[constKey]*Term{}}
	if parent != nil {
		b.ctr = parent.ctr
		b.True, b.False = parent.True, parent.False
	} else {
		n := 1
		b.ctr = &n
		b.True = b.mk(&Term{Op: OpConst, W: 0, Val: 1})
		b.False = b.mk(&Term{Op: OpConst, W: 0, Val: 0})
	}
	return b
}

func key(t *Term) string {
	buf := make([]byte, 0, 48)
	buf = strconv.AppendInt(buf, int64(t.Op), 10)
	buf = append(buf, '.')
	buf = strconv.AppendInt(buf, int64(t.W), 10)
	buf = append(buf, '.')
	buf = strconv.AppendUint(buf, t.Val, 16)
	buf = append(buf, '.')
	buf = strconv.AppendInt(buf, int64(t.A), 10)
	buf = append(buf, '.')
	buf = strconv.AppendInt(buf, int64(t.B), 10)
	buf = append(buf, '.')
	buf = append(buf, t.Name...)
	for _, a := range t.Args {
		buf = append(buf, ',')
		buf = strconv.AppendInt(buf, int64(a.id), 36)
	}
	return string(buf)
}

func (b *Builder) mk(t *Term) *Term {
	k := key(t)
	for bb := b; bb != nil; bb = bb.parent {
		if x, ok := bb.tab[k]; ok {
			return x
		}
	}
	t.id = *b.ctr
	*b.ctr++
	b.tab[k] = t
	return t
}

// r replaces a term by the constant it is known to equal on this path.
func (b *Builder) r(x *Term) *Term {
	if b.rep != nil {
		if c, ok := b.rep[x]; ok {
			return c
		}
	}
	return x
}

func (b *Builder) SetRep(x, c *Term) {
	if x.IsConst() {
		return
	}
	if b.rep == nil {
		b.rep = map[*Term]*Term{}
	}
	b.rep[x] = c
}

func (b *Builder) Const(v uint64, w int) *Term {
	if w == 0 {
		if v != 0 {
			return b.True
		}
		return b.False
	}
	v &= mask(w)
	k := constKey{w, v}
	for bb := b; bb != nil; bb = bb.parent {
		if x, ok := bb.consts[k]; ok {
			return x
		}
	}
	t := &Term{Op: OpConst, W: w, Val: v, id: *b.ctr}
	*b.ctr++
	b.consts[k] = t
	return t
}

func (b *Builder) Bool(v bool) *Term {
	if v {
		return b.True
	}
	return b.False
}

func (b *Builder) Var(name string, w int) *Term {
	return b.mk(&Term{Op: OpVar, W: w, Name: name})
}

// ---- range analysis (unsigned) ----

func (t *Term) Range() (uint64, uint64) {
	if t.rngOK {
		return t.lo, t.hi
	}
	lo, hi := uint64(0), mask(t.W)
	if t.W == 0 {
		hi = 1
	}
	switch t.Op {
	case OpConst:
		lo, hi = t.Val, t.Val
	case OpZExt:
		lo, hi = t.Args[0].Range()
	case OpIte:
		l1, h1 := t.Args[1].Range()
		l2, h2 := t.Args[2].Range()
		lo, hi = l1, h1
		if l2 < lo {
			lo = l2
		}
		if h2 > hi {
			hi = h2
		}
	case OpAnd:
		_, h1 := t.Args[0].Range()
		_, h2 := t.Args[1].Range()
		lo = 0
		hi = h1
		if h2 < hi {
			hi = h2
		}
	case OpAdd:
		l1, h1 := t.Args[0].Range()
		l2, h2 := t.Args[1].Range()
		if s, c := bits.Add64(h1, h2, 0); c == 0 && s <= mask(t.W) {
			lo, hi = l1+l2, s
		}
	case OpLShr:
		if t.Args[1].IsConst() {
			l1, h1 := t.Args[0].Range()
			s := t.Args[1].Val
			if s < 64 {
				lo, hi = l1>>s, h1>>s
			} else {
				lo, hi = 0, 0
			}
		}
	case OpURem:
		if t.Args[1].IsConst() && t.Args[1].Val > 0 {
			lo, hi = 0, t.Args[1].Val-1
		}
	case OpExtract:
		if t.B == 0 {
			l1, h1 := t.Args[0].Range()
			if h1 <= mask(t.W) {
				lo, hi = l1, h1
			}
		}
	}
	if d := t.Domain(); d != nil && len(d) > 0 {
		if d[0] > lo {
			lo = d[0]
		}
		if d[len(d)-1] < hi {
			hi = d[len(d)-1]
		}
	}
	t.lo, t.hi, t.rngOK = lo, hi, true
	return lo, hi
}

const domLimit = 300

// Domain returns a sorted over-approximation of the values t can take, or nil
// if it is larger than domLimit / unknown.
func (t *Term) Domain() []uint64 {
	if t.domOK {
		return t.dom
	}
	t.domOK = true
	var d []uint64
	switch t.Op {
	case OpConst:
		d = []uint64{t.Val}
	case OpVar:
		if t.W > 0 && t.W <= 8 {
			n := 1 << uint(t.W)
			d = make([]uint64, n)
			for i := range d {
				d[i] = uint64(i)
			}
		} else if t.W == 0 {
			d = []uint64{0, 1}
		}
	case OpIte:
		a, b := t.Args[1].Domain(), t.Args[2].Domain()
		if a != nil && b != nil {
			d = unionDom(a, b)
		}
	case OpZExt:
		d = t.Args[0].Domain()
	case OpSExt:
		if a := t.Args[0].Domain(); a != nil {
			d = mapDom(a, func(v uint64) uint64 { return uint64(sext64(v, t.Args[0].W)) & mask(t.W) })
		}
	case OpExtract:
		if a := t.Args[0].Domain(); a != nil {
			d = mapDom(a, func(v uint64) uint64 { return (v >> uint(t.B)) & mask(t.W) })
		}
	case OpAdd, OpSub, OpAnd, OpOr, OpXor, OpMul, OpShl, OpLShr:
		a, b := t.Args[0].Domain(), t.Args[1].Domain()
		if a != nil && b != nil && len(a)*len(b) <= domLimit {
			m := map[uint64]bool{}
			for _, x := range a {
				for _, y := range b {
					m[evalBin(t.Op, x, y, t.W)] = true
				}
			}
			for v := range m {
				d = append(d, v)
			}
			sort.Slice(d, func(i, j int) bool { return d[i] < d[j] })
		}
	}
	if len(d) > domLimit {
		d = nil
	}
	t.dom = d
	return d
}

func unionDom(a, b []uint64) []uint64 {
	r := make([]uint64, 0, len(a)+len(b))
	i, j := 0, 0
	for i < len(a) || j < len(b) {
		switch {
		case j >= len(b) || (i < len(a) && a[i] < b[j]):
			r = append(r, a[i])
			i++
		case i >= len(a) || b[j] < a[i]:
			r = append(r, b[j])
			j++
		default:
			r = append(r, a[i])
			i++
			j++
		}
	}
	if len(r) > domLimit {
		return nil
	}
	return r
}

func mapDom(a []uint64, f func(uint64) uint64) []uint64 {
	m := map[uint64]bool{}
	for _, x := range a {
		m[f(x)] = true
	}
	r := make([]uint64, 0, len(m))
	for v := range m {
		r = append(r, v)
	}
	sort.Slice(r, func(i, j int) bool { return r[i] < r[j] })
	return r
}

func evalBin(op Op, x, y uint64, w int) uint64 {
	m := mask(w)
	switch op {
	case OpAdd:
		return (x + y) & m
	case OpSub:
		return (x - y) & m
	case OpMul:
		return (x * y) & m
	case OpUDiv:
		if y == 0 {
			return m
		}
		return (x / y) & m
	case OpURem:
		if y == 0 {
			return x
		}
		return (x % y) & m
	case OpSDiv:
		sx, sy := sext64(x, w), sext64(y, w)
		if sy == 0 {
			if sx < 0 {
				return 1
			}
			return m
		}
		if sy == -1 {
			return uint64(-sx) & m
		}
		return uint64(sx/sy) & m
	case OpSRem:
		sx, sy := sext64(x, w), sext64(y, w)
		if sy == 0 {
			return x
		}
		if sy == -1 {
			return 0
		}
		return uint64(sx%sy) & m
	case OpAnd:
		return x & y
	case OpOr:
		return x | y
	case OpXor:
		return x ^ y
	case OpShl:
		if y >= uint64(w) {
			return 0
		}
		return (x << y) & m
	case OpLShr:
		if y >= uint64(w) {
			return 0
		}
		return (x >> y) & m
	case OpAShr:
		sx := sext64(x, w)
		if y >= uint64(w) {
			y = uint64(w) - 1
		}
		return uint64(sx>>y) & m
	}
	panic("evalBin")
}

func evalCmp(op Op, x, y uint64, w int) bool {
	switch op {
	case OpEq:
		return x == y
	case OpUlt:
		return x < y
	case OpUle:
		return x <= y
	case OpSlt:
		return sext64(x, w) < sext64(y, w)
	case OpSle:
		return sext64(x, w) <= sext64(y, w)
	}
	panic("evalCmp")
}

// ---- constructors ----

func (b *Builder) Bin(op Op, x, y *Term) *Term {
	x, y = b.r(x), b.r(y)
	if x.W != y.W {
		panic(fmt.Sprintf("Bin width mismatch %d %d op %d", x.W, y.W, op))
	}
	w := x.W
	if x.IsConst() && y.IsConst() {
		return b.Const(evalBin(op, x.Val, y.Val, w), w)
	}
	// normalise constants to the right for commutative ops
	switch op {
	case OpAdd, OpMul, OpAnd, OpOr, OpXor:
		if x.IsConst() {
			x, y = y, x
		}
	}
	if y.IsConst() {
		switch op {
		case OpAdd, OpSub, OpOr, OpXor, OpShl, OpLShr, OpAShr:
			if y.Val == 0 {
				return x
			}
		case OpMul:
			if y.Val == 0 {
				return y
			}
			if y.Val == 1 {
				return x
			}
		case OpAnd:
			if y.Val == 0 {
				return y
			}
			if y.Val == mask(w) {
				return x
			}
			if _, hi := x.Range(); hi <= y.Val && (y.Val&(y.Val+1)) == 0 {
				return x
			}
		case OpUDiv, OpSDiv:
			if y.Val == 1 {
				return x
			}
		}
		// (x + c1) + c2
		if op == OpAdd && x.Op == OpAdd && x.Args[1].IsConst() {
			return b.Bin(OpAdd, x.Args[0], b.Const(x.Args[1].Val+y.Val, w))
		}
		if op == OpSub {
			return b.Bin(OpAdd, x, b.Const(-y.Val, w))
		}
	}
	if x == y {
		switch op {
		case OpSub, OpXor:
			return b.Const(0, w)
		case OpAnd, OpOr:
			return x
		}
	}
	// push through ite with constant arms when the other operand is constant
	if y.IsConst() && x.Op == OpIte && constLeaves(x, 16) {
		return b.mapLeaves(x, func(v *Term) *Term { return b.Bin(op, v, y) })
	}
	if x.IsConst() && y.Op == OpIte && constLeaves(y, 16) {
		return b.mapLeaves(y, func(v *Term) *Term { return b.Bin(op, x, v) })
	}
	return b.mk(&Term{Op: op, W: w, Args: []*Term{x, y}})
}

// constLeaves reports whether t is an ite tree with only constant leaves (at most n leaves).
func constLeaves(t *Term, n int) bool {
	c := 0
	var rec func(t *Term) bool
	rec = func(t *Term) bool {
		if t.Op == OpIte {
			return rec(t.Args[1]) && rec(t.Args[2])
		}
		c++
		return t.IsConst() && c <= n
	}
	return rec(t)
}

func (b *Builder) mapLeaves(t *Term, f func(*Term) *Term) *Term {
	if t.Op == OpIte {
		return b.Ite(t.Args[0], b.mapLeaves(t.Args[1], f), b.mapLeaves(t.Args[2], f))
	}
	return f(t)
}

func (b *Builder) Add(x, y *Term) *Term { return b.Bin(OpAdd, x, y) }
func (b *Builder) Sub(x, y *Term) *Term { return b.Bin(OpSub, x, y) }

func (b *Builder) Un(op Op, x *Term) *Term {
	x = b.r(x)
	if x.IsConst() {
		switch op {
		case OpNot:
			return b.Const(^x.Val, x.W)
		case OpNeg:
			return b.Const(-x.Val, x.W)
		}
	}
	if x.Op == op {
		return x.Args[0]
	}
	return b.mk(&Term{Op: op, W: x.W, Args: []*Term{x}})
}

func (b *Builder) ZExt(x *Term, w int) *Term {
	x = b.r(x)
	if x.W == w {
		return x
	}
	if x.W > w {
		panic("ZExt narrowing")
	}
	if x.IsConst() {
		return b.Const(x.Val, w)
	}
	if x.Op == OpZExt {
		return b.ZExt(x.Args[0], w)
	}
	if x.Op == OpIte && constLeaves(x, 64) {
		return b.mapLeaves(x, func(v *Term) *Term { return b.ZExt(v, w) })
	}
	return b.mk(&Term{Op: OpZExt, W: w, Args: []*Term{x}})
}

func (b *Builder) SExt(x *Term, w int) *Term {
	x = b.r(x)
	if x.W == w {
		return x
	}
	if x.W > w {
		panic("SExt narrowing")
	}
	if x.IsConst() {
		return b.Const(uint64(sext64(x.Val, x.W)), w)
	}
	if _, hi := x.Range(); hi < uint64(1)<<uint(x.W-1) {
		return b.ZExt(x, w)
	}
	if x.Op == OpIte && constLeaves(x, 64) {
		return b.mapLeaves(x, func(v *Term) *Term { return b.SExt(v, w) })
	}
	return b.mk(&Term{Op: OpSExt, W: w, Args: []*Term{x}})
}

func (b *Builder) Extract(x *Term, hi, lo int) *Term {
	x = b.r(x)
	w := hi - lo + 1
	if lo == 0 && w == x.W {
		return x
	}
	if x.IsConst() {
		return b.Const(x.Val>>uint(lo), w)
	}
	if (x.Op == OpZExt || x.Op == OpSExt) && lo == 0 {
		in := x.Args[0]
		if w == in.W {
			return in
		}
		if w < in.W {
			return b.Extract(in, hi, 0)
		}
		if x.Op == OpZExt {
			return b.ZExt(in, w)
		}
		return b.SExt(in, w)
	}
	if x.Op == OpIte && constLeaves(x, 64) {
		return b.mapLeaves(x, func(v *Term) *Term { return b.Extract(v, hi, lo) })
	}
	return b.mk(&Term{Op: OpExtract, W: w, Args: []*Term{x}, A: hi, B: lo})
}

// Trunc or extend (by signedness) to width w.
func (b *Builder) Resize(x *Term, w int, signed bool) *Term {
	switch {
	case x.W == w:
		return x
	case x.W > w:
		return b.Extract(x, w-1, 0)
	case signed:
		return b.SExt(x, w)
	default:
		return b.ZExt(x, w)
	}
}

func (b *Builder) Concat(hi, lo *Term) *Term {
	hi, lo = b.r(hi), b.r(lo)
	w := hi.W + lo.W
	if hi.IsConst() && lo.IsConst() {
		return b.Const(hi.Val<<uint(lo.W)|lo.Val, w)
	}
	if hi.IsConst() && hi.Val == 0 {
		return b.ZExt(lo, w)
	}
	return b.mk(&Term{Op: OpConcat, W: w, Args: []*Term{hi, lo}})
}

func (b *Builder) Ite(c, x, y *Term) *Term {
	c, x, y = b.r(c), b.r(x), b.r(y)
	if c.IsTrue() {
		return x
	}
	if c.IsFalse() {
		return y
	}
	if x == y {
		return x
	}
	if x.W != y.W {
		panic(fmt.Sprintf("Ite width mismatch %d %d", x.W, y.W))
	}
	if x.W == 0 {
		if x.IsTrue() && y.IsFalse() {
			return c
		}
		if x.IsFalse() && y.IsTrue() {
			return b.Not(c)
		}
		if x.IsTrue() {
			return b.Or(c, y)
		}
		if x.IsFalse() {
			return b.And(b.Not(c), y)
		}
		if y.IsTrue() {
			return b.Or(b.Not(c), x)
		}
		if y.IsFalse() {
			return b.And(c, x)
		}
	}
	if c.Op == OpBNot {
		return b.Ite(c.Args[0], y, x)
	}
	// ite(c, a, ite(c, _, b)) = ite(c, a, b)
	if y.Op == OpIte && y.Args[0] == c {
		return b.Ite(c, x, y.Args[2])
	}
	if x.Op == OpIte && x.Args[0] == c {
		return b.Ite(c, x.Args[1], y)
	}
	// ite(c1, a, ite(c2, a, b)) = ite(c1|c2, a, b)
	if y.Op == OpIte && y.Args[1] == x {
		return b.Ite(b.Or(c, y.Args[0]), x, y.Args[2])
	}
	return b.mk(&Term{Op: OpIte, W: x.W, Args: []*Term{c, x, y}})
}

func (b *Builder) Not(x *Term) *Term {
	x = b.r(x)
	if x.IsConst() {
		return b.Bool(x.Val == 0)
	}
	switch x.Op {
	case OpBNot:
		return x.Args[0]
	}
	return b.mk(&Term{Op: OpBNot, W: 0, Args: []*Term{x}})
}

func (b *Builder) nary(op Op, xs []*Term) *Term {
	// flatten, dedupe, constant handling
	var out []*Term
	seen := map[*Term]bool{}
	var add func(x *Term) bool
	add = func(x *Term) bool { // returns true if short-circuits
		x = b.r(x)
		if x.IsConst() {
			if (op == OpBAnd) == (x.Val == 0) {
				return true
			}
			return false
		}
		if x.Op == op {
			for _, a := range x.Args {
				if add(a) {
					return true
				}
			}
			return false
		}
		if !seen[x] {
			seen[x] = true
			out = append(out, x)
		}
		return false
	}
	for _, x := range xs {
		if add(x) {
			return b.Bool(op == OpBOr)
		}
	}
	for _, x := range out {
		if x.Op == OpBNot && seen[x.Args[0]] {
			return b.Bool(op == OpBOr)
		}
	}
	if len(out) == 0 {
		return b.Bool(op == OpBAnd)
	}
	if len(out) == 1 {
		return out[0]
	}
	sort.Slice(out, func(i, j int) bool { return out[i].id < out[j].id })
	return b.mk(&Term{Op: op, W: 0, Args: out})
}

func (b *Builder) And(xs ...*Term) *Term { return b.nary(OpBAnd, xs) }
func (b *Builder) Or(xs ...*Term) *Term  { return b.nary(OpBOr, xs) }

func (b *Builder) Cmp(op Op, x, y *Term) *Term {
	x, y = b.r(x), b.r(y)
	if x.W != y.W {
		panic(fmt.Sprintf("Cmp width mismatch %d %d", x.W, y.W))
	}
	w := x.W
	if x.IsConst() && y.IsConst() {
		return b.Bool(evalCmp(op, x.Val, y.Val, w))
	}
	if x == y {
		return b.Bool(op == OpEq || op == OpUle || op == OpSle)
	}
	if w == 0 { // Bool equality
		if op != OpEq {
			panic("bool compare")
		}
		if y.IsConst() {
			x, y = y, x
		}
		if x.IsConst() {
			if x.Val == 1 {
				return y
			}
			return b.Not(y)
		}
		return b.mk(&Term{Op: OpEq, W: 0, Args: order2(x, y)})
	}
	// range reasoning (unsigned)
	lx, hx := x.Range()
	ly, hy := y.Range()
	switch op {
	case OpEq:
		if hx < ly || hy < lx {
			return b.False
		}
		if x.IsConst() {
			x, y = y, x
		}
		if y.IsConst() {
			if d := x.Domain(); d != nil && !inDom(d, y.Val) {
				return b.False
			}
			// eq(ite(...consts...), k)
			if x.Op == OpIte && constLeaves(x, 64) {
				return b.mapLeavesBool(x, func(v *Term) *Term { return b.Bool(v.Val == y.Val) })
			}
			// eq(zext(a), k) -> eq(a, k')
			if x.Op == OpZExt {
				in := x.Args[0]
				if y.Val > mask(in.W) {
					return b.False
				}
				return b.Cmp(OpEq, in, b.Const(y.Val, in.W))
			}
			// eq(x + c, k) -> eq(x, k-c)
			if x.Op == OpAdd && x.Args[1].IsConst() {
				return b.Cmp(OpEq, x.Args[0], b.Const(y.Val-x.Args[1].Val, w))
			}
		}
		if x.Op == OpZExt && y.Op == OpZExt && x.Args[0].W == y.Args[0].W {
			return b.Cmp(OpEq, x.Args[0], y.Args[0])
		}
		return b.mk(&Term{Op: OpEq, W: 0, Args: order2(x, y)})
	case OpUlt:
		if hx < ly {
			return b.True
		}
		if lx >= hy {
			return b.False
		}
	case OpUle:
		if hx <= ly {
			return b.True
		}
		if lx > hy {
			return b.False
		}
	case OpSlt, OpSle:
		// if both ranges are within the non-negative half, signed == unsigned
		half := uint64(1) << uint(w-1)
		if hx < half && hy < half {
			if op == OpSlt {
				return b.Cmp(OpUlt, x, y)
			}
			return b.Cmp(OpUle, x, y)
		}
	}
	if (op == OpUlt || op == OpUle) && x.Op == OpZExt && y.Op == OpZExt && x.Args[0].W == y.Args[0].W {
		return b.Cmp(op, x.Args[0], y.Args[0])
	}
	if (op == OpUlt || op == OpUle) && x.Op == OpZExt && y.IsConst() && y.Val <= mask(x.Args[0].W) {
		return b.Cmp(op, x.Args[0], b.Const(y.Val, x.Args[0].W))
	}
	if (op == OpUlt || op == OpUle) && y.Op == OpZExt && x.IsConst() && x.Val <= mask(y.Args[0].W) {
		return b.Cmp(op, b.Const(x.Val, y.Args[0].W), y.Args[0])
	}
	if y.IsConst() && x.Op == OpIte && constLeaves(x, 32) {
		return b.mapLeavesBool(x, func(v *Term) *Term { return b.Bool(evalCmp(op, v.Val, y.Val, w)) })
	}
	if x.IsConst() && y.Op == OpIte && constLeaves(y, 32) {
		return b.mapLeavesBool(y, func(v *Term) *Term { return b.Bool(evalCmp(op, x.Val, v.Val, w)) })
	}
	return b.mk(&Term{Op: op, W: 0, Args: []*Term{x, y}})
}

func (b *Builder) mapLeavesBool(t *Term, f func(*Term) *Term) *Term {
	if t.Op == OpIte {
		return b.Ite(t.Args[0], b.mapLeavesBool(t.Args[1], f), b.mapLeavesBool(t.Args[2], f))
	}
	return f(t)
}

func order2(x, y *Term) []*Term {
	if x.id > y.id {
		return []*Term{y, x}
	}
	return []*Term{x, y}
}

func inDom(d []uint64, v uint64) bool {
	i := sort.Search(len(d), func(i int) bool { return d[i] >= v })
	return i < len(d) && d[i] == v
}

func (b *Builder) Eq(x, y *Term) *Term { return b.Cmp(OpEq, x, y) }

// ---- evaluation under a model ----

type Model map[string]uint64 // variable name -> value; missing = 0

func (m Model) Eval(t *Term) uint64 {
	memo := map[*Term]uint64{}
	return m.eval(t, memo)
}

func (m Model) eval(t *Term, memo map[*Term]uint64) uint64 {
	if t.Op == OpConst {
		return t.Val
	}
	if v, ok := memo[t]; ok {
		return v
	}
	var r uint64
	switch t.Op {
	case OpVar:
		r = m[t.Name] & maskB(t.W)
	case OpAdd, OpSub, OpMul, OpUDiv, OpSDiv, OpURem, OpSRem, OpAnd, OpOr, OpXor, OpShl, OpLShr, OpAShr:
		r = evalBin(t.Op, m.eval(t.Args[0], memo), m.eval(t.Args[1], memo), t.W)
	case OpNot:
		r = ^m.eval(t.Args[0], memo) & mask(t.W)
	case OpNeg:
		r = -m.eval(t.Args[0], memo) & mask(t.W)
	case OpZExt:
		r = m.eval(t.Args[0], memo)
	case OpSExt:
		r = uint64(sext64(m.eval(t.Args[0], memo), t.Args[0].W)) & mask(t.W)
	case OpExtract:
		r = (m.eval(t.Args[0], memo) >> uint(t.B)) & mask(t.W)
	case OpConcat:
		r = m.eval(t.Args[0], memo)<<uint(t.Args[1].W) | m.eval(t.Args[1], memo)
	case OpIte:
		if m.eval(t.Args[0], memo) != 0 {
			r = m.eval(t.Args[1], memo)
		} else {
			r = m.eval(t.Args[2], memo)
		}
	case OpEq, OpUlt, OpUle, OpSlt, OpSle:
		if evalCmp(t.Op, m.eval(t.Args[0], memo), m.eval(t.Args[1], memo), t.Args[0].W) {
			r = 1
		}
	case OpBAnd:
		r = 1
		for _, a := range t.Args {
			if m.eval(a, memo) == 0 {
				r = 0
				break
			}
		}
	case OpBOr:
		r = 0
		for _, a := range t.Args {
			if m.eval(a, memo) != 0 {
				r = 1
				break
			}
		}
	case OpBNot:
		r = 1 - m.eval(t.Args[0], memo)
	default:
		panic("eval: op")
	}
	memo[t] = r
	return r
}

func maskB(w int) uint64 {
	if w == 0 {
		return 1
	}
	return mask(w)
}

// ---- SMT-LIB printing ----

func sortOf(w int) string {
	if w == 0 {
		return "Bool"
	}
	return fmt.Sprintf("(_ BitVec %d)", w)
}

func constLit(t *Term) string {
	if t.W == 0 {
		if t.Val != 0 {
			return "true"
		}
		return "false"
	}
	if t.W%4 == 0 {
		return fmt.Sprintf("#x%0*x", t.W/4, t.Val)
	}
	return fmt.Sprintf("#b%0*b", t.W, t.Val)
}

func (t *Term) ref() string {
	if t.Op == OpConst {
		return constLit(t)
	}
	if t.Op == OpVar {
		return t.Name
	}
	return fmt.Sprintf("t%d", t.id)
}

// body returns the SMT-LIB expression of t in terms of refs of its args.
func (t *Term) body() string {
	switch t.Op {
	case OpZExt:
		return fmt.Sprintf("((_ zero_extend %d) %s)", t.W-t.Args[0].W, t.Args[0].ref())
	case OpSExt:
		return fmt.Sprintf("((_ sign_extend %d) %s)", t.W-t.Args[0].W, t.Args[0].ref())
	case OpExtract:
		return fmt.Sprintf("((_ extract %d %d) %s)", t.A, t.B, t.Args[0].ref())
	}
	var sb strings.Builder
	sb.WriteString("(")
	sb.WriteString(opNames[t.Op])
	for _, a := range t.Args {
		sb.WriteString(" ")
		sb.WriteString(a.ref())
	}
	sb.WriteString(")")
	return sb.String()
}

// String renders a term fully (for debugging / samples); large terms are cut.
func (t *Term) String() string {
	var sb strings.Builder
	var rec func(t *Term, depth int)
	rec = func(t *Term, depth int) {
		if sb.Len() > 400 {
			sb.WriteString("…")
			return
		}
		switch t.Op {
		case OpConst:
			if t.W == 0 {
				sb.WriteString(constLit(t))
			} else {
				fmt.Fprintf(&sb, "%d", t.Val)
			}
			return
		case OpVar:
			sb.WriteString(t.Name)
			return
		}
		if depth > 6 {
			fmt.Fprintf(&sb, "t%d", t.id)
			return
		}
		sb.WriteString("(")
		switch t.Op {
		case OpZExt:
			sb.WriteString("zext")
		case OpSExt:
			sb.WriteString("sext")
		case OpExtract:
			fmt.Fprintf(&sb, "extract[%d:%d]", t.A, t.B)
		default:
			sb.WriteString(opNames[t.Op])
		}
		for _, a := range t.Args {
			sb.WriteString(" ")
			rec(a, depth+1)
		}
		sb.WriteString(")")
	}
	rec(t, 0)
	return sb.String()
}

// Vars returns the free variables of t.
func (t *Term) Vars() []*Term {
	if t.varsDone {
		return t.vars
	}
	seen := map[*Term]bool{}
	var out []*Term
	var rec func(t *Term)
	rec = func(t *Term) {
		if seen[t] {
			return
		}
		seen[t] = true
		if t.Op == OpVar {
			out = append(out, t)
			return
		}
		for _, a := range t.Args {
			rec(a)
		}
	}
	rec(t)
	sort.Slice(out, func(i, j int) bool { return out[i].id < out[j].id })
	t.vars, t.varsDone = out, true
	return out
}
