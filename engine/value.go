package main

import (
	"fmt"
	"go/types"

	"golang.org/x/tools/go/ssa"
)

// Value is one of:
//   *Term            integers (bit-vector) and booleans (W==0)
//   float64          concrete floats only
//   StrV             strings: concrete length, symbolic bytes
//   SliceV           slices over a Go []Value backing (cap/aliasing are Go's own)
//   Ptr              pointers (possibly a guarded set of alternatives)
//   StructV, ArrayV  aggregates (value semantics; stored field-wise in place)
//   *MapV            maps (reference)
//   IfaceV           interfaces
//   *FuncV           functions / closures / builtins
//   TupleV           multi-value results
//   *IterV           range iterators
//   OpaqueV          stubs for things the engine does not model
type Value interface{}

type StrV struct{ b []*Term }

type SliceV struct {
	s []Value
}

type altPtr struct {
	g *Term
	p Ptr
}

type Ptr struct {
	p    *Value  // slot
	arr  []Value // if the slot is an element of a backing array: arr[0] is the slot
	alts []altPtr
	// symbolic element pointer: &cells[idx], idx ranging over cand (sorted candidate indices)
	idx   *Term
	cells []Value
	back  []Value
	cand  []int
}

func (p Ptr) isNil() bool { return p.p == nil && p.alts == nil && p.idx == nil }

type StructV []Value
type ArrayV []Value
type TupleV []Value

type mapEntry struct {
	k, v Value
}

type MapV struct {
	kt, vt  types.Type
	entries []mapEntry // immutable slices; replaced on update (journaled)
}

type IfaceV struct {
	t types.Type
	v Value
}

type FuncV struct {
	fn      *ssa.Function
	free    []Value
	builtin *ssa.Builtin
	bound   Value // for bound method closures handled via free
}

type IterV struct {
	str   *StrV
	pos   int
	m     []mapEntry
	isMap bool
}

// ChanV: minimal buffered channel (sequential model: sends append, receives pop).
type ChanV struct {
	buf []Value
	cap int
}

type OpaqueV struct{ desc string }

func (o OpaqueV) String() string { return "opaque(" + o.desc + ")" }

// width of a basic type in bits; 0 for bool.
func widthOf(t types.Type) int {
	b, ok := t.Underlying().(*types.Basic)
	if !ok {
		panic(fmt.Sprintf("widthOf: non-basic %s", t))
	}
	switch b.Kind() {
	case types.Bool, types.UntypedBool:
		return 0
	case types.Int8, types.Uint8:
		return 8
	case types.Int16, types.Uint16:
		return 16
	case types.Int32, types.Uint32, types.UntypedRune:
		return 32
	case types.Int, types.Uint, types.Int64, types.Uint64, types.Uintptr, types.UntypedInt:
		return 64
	}
	panic(fmt.Sprintf("widthOf: %s", t))
}

func isSigned(t types.Type) bool {
	b, ok := t.Underlying().(*types.Basic)
	if !ok {
		return false
	}
	return b.Info()&types.IsInteger != 0 && b.Info()&types.IsUnsigned == 0
}

func isIntOrBool(t types.Type) bool {
	b, ok := t.Underlying().(*types.Basic)
	return ok && b.Info()&(types.IsInteger|types.IsBoolean) != 0
}

func isString(t types.Type) bool {
	b, ok := t.Underlying().(*types.Basic)
	return ok && b.Info()&types.IsString != 0
}

func isFloat(t types.Type) bool {
	b, ok := t.Underlying().(*types.Basic)
	return ok && b.Info()&types.IsFloat != 0
}

func (w *Worker) zero(t types.Type) Value {
	switch u := t.Underlying().(type) {
	case *types.Basic:
		switch {
		case u.Kind() == types.UnsafePointer:
			return Ptr{}
		case u.Info()&types.IsString != 0:
			return StrV{}
		case u.Info()&types.IsFloat != 0:
			return float64(0)
		case u.Info()&(types.IsInteger|types.IsBoolean) != 0:
			return w.B.Const(0, widthOf(u))
		case u.Kind() == types.UntypedNil:
			return Ptr{}
		case u.Kind() == types.Invalid:
			return nil // unused component of a range tuple
		}
		unsupported("zero of basic " + u.String())
	case *types.Pointer:
		return Ptr{}
	case *types.Struct:
		s := make(StructV, u.NumFields())
		for i := range s {
			s[i] = w.zero(u.Field(i).Type())
		}
		return s
	case *types.Array:
		a := make(ArrayV, int(u.Len()))
		for i := range a {
			a[i] = w.zero(u.Elem())
		}
		return a
	case *types.Slice:
		return SliceV{}
	case *types.Map:
		return (*MapV)(nil)
	case *types.Interface:
		return IfaceV{}
	case *types.Signature:
		return (*FuncV)(nil)
	case *types.Chan:
		return OpaqueV{"nil chan"}
	case *types.Tuple:
		tv := make(TupleV, u.Len())
		for i := range tv {
			tv[i] = w.zero(u.At(i).Type())
		}
		return tv
	}
	unsupported("zero of " + t.String())
	return nil
}

// copyVal gives value semantics to aggregates.
func copyVal(v Value) Value {
	switch v := v.(type) {
	case StructV:
		c := make(StructV, len(v))
		for i := range v {
			c[i] = copyVal(v[i])
		}
		return c
	case ArrayV:
		c := make(ArrayV, len(v))
		for i := range v {
			c[i] = copyVal(v[i])
		}
		return c
	}
	return v
}

type unsupportedErr struct{ msg string }

func unsupported(msg string) {
	panic(unsupportedErr{msg})
}

// mergeAbort is raised inside a merged region when something cannot be
// merged; the outermost merge falls back to forking.
type mergeAbort struct{ why string }
