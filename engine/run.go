package main

import (
	"os"
	"fmt"

	"golang.org/x/tools/go/ssa"
)

// run executes blocks of fr starting at blk (entered from pred) until the
// function returns (stop == nil) or control reaches stop. Outside merged
// regions (rg == nil) it returns exactly one arrival.
func (w *Worker) run(fr *frame, blk, pred, stop *ssa.BasicBlock, rg *region, skipPhis bool) []arrival {
	for {
		if stop != nil && blk == stop {
			return []arrival{w.arrive(fr, rg, stop, pred, nil, false)}
		}
		if len(blk.Preds) > 1 && !skipPhis {
			if fr.loopCnt == nil {
				fr.loopCnt = map[*ssa.BasicBlock]int{}
			}
			fr.loopCnt[blk]++
			if fr.loopCnt[blk] > w.job.Unwind {
				w.job.unwindHit(blk)
				panic(unsupportedErr{"UNWIND-EXCEEDED at " + blk.Parent().Name() + " block " + fmt.Sprint(blk.Index)})
			}
		}
		nphi := 0
		for _, ins := range blk.Instrs {
			if _, ok := ins.(*ssa.Phi); !ok {
				break
			}
			nphi++
		}
		if !skipPhis && nphi > 0 {
			vals := w.phiValues(fr, blk, pred)
			for i := 0; i < nphi; i++ {
				fr.env[blk.Instrs[i].(*ssa.Phi)] = vals[i]
				if traceFn != "" && fr.fn.Name() == traceFn {
					fmt.Fprintf(os.Stderr, "TRACE %s b%d phi %s(%s) = %s  [pred b%d]\n", traceFn, blk.Index, blk.Instrs[i].(*ssa.Phi).Name(), blk.Instrs[i].(*ssa.Phi).Comment, w.describe2(vals[i]), pred.Index)
				}
			}
		}
		skipPhis = false
		var next *ssa.BasicBlock
		merged := false
		for _, ins := range blk.Instrs[nphi:] {
			w.steps++
			if w.steps > w.job.MaxSteps {
				panic(unsupportedErr{"STEP-LIMIT exceeded"})
			}
			w.curInstr = ins
			switch ins := ins.(type) {
			case *ssa.Jump:
				next = blk.Succs[0]
			case *ssa.If:
				c := w.get(fr, ins.Cond).(*Term)
				if traceFn != "" && fr.fn.Name() == traceFn {
					fmt.Fprintf(os.Stderr, "TRACE %s b%d if %s inMerge=%d guards=%d\n", traceFn, blk.Index, c, w.inMerge, len(w.guards))
				}
				if v, ok := w.lookupKnown(c); ok {
					if debugSites != nil {
						fmt.Fprintf(os.Stderr, "if: known=%v at %s: %s\n", v, w.curPos(), c)
					}
					c = w.B.Bool(v)
				}
				if c.IsConst() {
					if c.Val != 0 {
						next = blk.Succs[0]
					} else {
						next = blk.Succs[1]
					}
					break
				}
				if w.concreteVec != nil {
					w.fail("symbolic branch in concrete mode at %s", w.curPos())
				}
				if w.job.Merge && w.P.mergeable(ins, w.job) {
					join := w.P.ipdom(blk)
					if rg != nil && join == stop {
						// same join as the enclosing region: arrivals pass straight up
						var arrs []arrival
						arrs = append(arrs, w.runArm(fr, blk.Succs[0], blk, stop, rg, c)...)
						arrs = append(arrs, w.runArm(fr, blk.Succs[1], blk, stop, rg, w.B.Not(c))...)
						return arrs
					}
					if ret, n, ok := w.tryMerge(fr, blk, c, join); ok {
						w.st.merges++
						if n == 0 {
							// every arm ends in a panic
							w.flushOrAbort()
							panic(pathEnd{kind: "panic", msg: "all merged arms panic"})
						}
						if join == nil {
							return []arrival{w.arrive(fr, rg, nil, nil, ret, true)}
						}
						next = join
						merged = true
						break
					}
				}
				if w.inMerge > 0 {
					panic(mergeAbort{"unmergeable branch inside merged region at " + w.curPos()})
				}
				if w.decide(c) {
					next = blk.Succs[0]
				} else {
					next = blk.Succs[1]
				}
			case *ssa.Return:
				var res Value
				switch len(ins.Results) {
				case 0:
				case 1:
					res = w.get(fr, ins.Results[0])
				default:
					tv := make(TupleV, len(ins.Results))
					for i, r := range ins.Results {
						tv[i] = w.get(fr, r)
					}
					res = tv
				}
				if stop != nil {
					w.fail("internal: return inside region with join")
				}
				return []arrival{w.arrive(fr, rg, nil, nil, res, true)}
			case *ssa.Panic:
				x := w.get(fr, ins.X)
				w.panicNow("explicit panic: " + w.describe(x))
			default:
				w.exec(fr, ins)
			}
			if next != nil {
				break
			}
		}
		if next == nil {
			w.fail("block fell through without terminator in %s", fr.fn)
		}
		pred, blk = blk, next
		skipPhis = merged
	}
}

func (w *Worker) flushOrAbort() {
	if w.inMerge > 0 {
		return
	}
	w.flush()
}

func (w *Worker) phiValues(fr *frame, blk, pred *ssa.BasicBlock) []Value {
	idx := -1
	for i, p := range blk.Preds {
		if p == pred {
			idx = i
			break
		}
	}
	if idx < 0 {
		w.fail("phi: predecessor not found in %s", fr.fn)
	}
	var vals []Value
	for _, ins := range blk.Instrs {
		phi, ok := ins.(*ssa.Phi)
		if !ok {
			break
		}
		vals = append(vals, w.get(fr, phi.Edges[idx]))
	}
	return vals
}

func (w *Worker) arrive(fr *frame, rg *region, stop, pred *ssa.BasicBlock, ret Value, isRet bool) arrival {
	a := arrival{ret: ret, isRet: isRet, g: w.B.True}
	if rg == nil {
		return a
	}
	a.g = w.B.And(w.guards[rg.guardBase:]...)
	if stop != nil {
		a.phiVals = w.phiValues2(fr, stop, pred)
	}
	a.writes = map[*Value]Value{}
	for i := rg.mark; i < len(w.journal); i++ {
		e := w.journal[i]
		if e.m != nil || e.ch != nil {
			panic(mergeAbort{"map/channel update inside merged region"})
		}
		if _, ok := a.writes[e.p]; !ok {
			a.writes[e.p] = *e.p
			a.order = append(a.order, e.p)
		}
	}
	return a
}

func (w *Worker) phiValues2(fr *frame, blk, pred *ssa.BasicBlock) []Value {
	if len(blk.Instrs) == 0 {
		return nil
	}
	if _, ok := blk.Instrs[0].(*ssa.Phi); !ok {
		return nil
	}
	return w.phiValues(fr, blk, pred)
}

// runArm executes one arm of a merged branch under guard g.
func (w *Worker) runArm(fr *frame, start, pred, stop *ssa.BasicBlock, rg *region, g *Term) (arrs []arrival) {
	m2 := len(w.journal)
	kl := len(w.knownLog)
	w.guards = append(w.guards, g)
	ng := len(w.guards)
	w.recordKnown(g, true)
	defer func() {
		// undo known facts, guard and heap effects of this arm
		for i := len(w.knownLog) - 1; i >= kl; i-- {
			u := w.knownLog[i]
			if u.had {
				w.known[u.t] = u.old
			} else {
				delete(w.known, u.t)
			}
		}
		w.knownLog = w.knownLog[:kl]
		w.guards = w.guards[:ng-1]
		w.rollback(m2)
		if r := recover(); r != nil {
			if pe, ok := r.(pathEnd); ok && pe.kind == "panic" {
				arrs = nil // dead arm: its obligation is pending
				return
			}
			panic(r)
		}
	}()
	return w.run(fr, start, pred, stop, rg, false)
}

// tryMerge executes both arms of the If ending blk as a merged region with the
// given join and applies the merge. n is the number of live arrivals.
func (w *Worker) tryMerge(fr *frame, blk *ssa.BasicBlock, c *Term, join *ssa.BasicBlock) (ret Value, n int, ok bool) {
	mark := len(w.journal)
	gbase := len(w.guards)
	pmark := len(w.pending)
	kl := len(w.knownLog)
	nd := len(w.nondet)
	savedInstr := w.curInstr
	rg := &region{mark: mark, guardBase: gbase}
	w.inMerge++
	defer func() {
		w.inMerge--
		w.curInstr = savedInstr
		if r := recover(); r != nil {
			_, isAbort := r.(mergeAbort)
			if !isAbort || w.inMerge > 0 {
				panic(r) // propagate to the outermost merge (or a real error)
			}
			w.st.mergeAborts++
			if debugSites != nil {
				debugMu.Lock()
				debugSites["abort "+r.(mergeAbort).why+" @ "+w.curPos()]++
				debugMu.Unlock()
			}
			w.rollback(mark)
			w.guards = w.guards[:gbase]
			w.pending = w.pending[:pmark]
			for i := len(w.knownLog) - 1; i >= kl; i-- {
				u := w.knownLog[i]
				if u.had {
					w.known[u.t] = u.old
				} else {
					delete(w.known, u.t)
				}
			}
			w.knownLog = w.knownLog[:kl]
			w.nondet = w.nondet[:nd]
			ret, n, ok = nil, 0, false
		}
	}()
	var arrs []arrival
	arrs = append(arrs, w.runArm(fr, blk.Succs[0], blk, join, rg, c)...)
	arrs = append(arrs, w.runArm(fr, blk.Succs[1], blk, join, rg, w.B.Not(c))...)
	if len(arrs) == 0 {
		return nil, 0, true
	}
	ret = w.applyMerge(fr, join, arrs)
	return ret, len(arrs), true
}

// applyMerge joins the arrivals: heap writes, phis of the join (or the return value when join == nil).
func (w *Worker) applyMerge(fr *frame, join *ssa.BasicBlock, arrs []arrival) Value {
	// heap
	var slots []*Value
	seen := map[*Value]bool{}
	for _, a := range arrs {
		for _, p := range a.order {
			if !seen[p] {
				seen[p] = true
				slots = append(slots, p)
			}
		}
	}
	for _, p := range slots {
		base := *p
		val := func(a arrival) Value {
			if v, ok := a.writes[p]; ok {
				return v
			}
			return base
		}
		r := val(arrs[len(arrs)-1])
		for i := len(arrs) - 2; i >= 0; i-- {
			r = w.ite(arrs[i].g, val(arrs[i]), r)
		}
		w.storeSlot(p, r)
	}
	if join == nil {
		r := arrs[len(arrs)-1].ret
		for i := len(arrs) - 2; i >= 0; i-- {
			r = w.ite(arrs[i].g, arrs[i].ret, r)
		}
		return r
	}
	// compute every merged phi value first: a value that cannot be merged aborts the whole
	// merge, and the join's phi registers (live inputs of the region when the join is a loop
	// header) must then be untouched
	var phis []*ssa.Phi
	var merged []Value
	for k, ins := range join.Instrs {
		phi, ok := ins.(*ssa.Phi)
		if !ok {
			break
		}
		r := arrs[len(arrs)-1].phiVals[k]
		for i := len(arrs) - 2; i >= 0; i-- {
			r = w.ite(arrs[i].g, arrs[i].phiVals[k], r)
		}
		phis = append(phis, phi)
		merged = append(merged, r)
	}
	for i, phi := range phis {
		fr.env[phi] = merged[i]
	}
	return nil
}

var traceFn = os.Getenv("SYMGO_TRACE")

func (w *Worker) describe2(v Value) string {
	switch x := v.(type) {
	case Ptr:
		if x.isNil() {
			return "nilptr"
		}
		if x.alts != nil {
			s := "alts{"
			for _, a := range x.alts {
				s += a.g.String() + "->" + w.describe2(a.p) + "; "
			}
			return s + "}"
		}
		return fmt.Sprintf("ptr(%p)", x.p)
	case *Term:
		return x.String()
	case SliceV:
		return fmt.Sprintf("slice(len %d)", len(x.s))
	}
	return fmt.Sprintf("%T", v)
}
