import sys, os, json, time, subprocess, tempfile, shutil, glob, importlib, random, hashlib

VERIF = os.path.dirname(os.path.dirname(os.path.abspath(__file__)))
REPO = os.environ.get("VERIF_REPO", "/repo")
ENGINE_DIR = os.path.join(VERIF, "engine")
ENGINE = os.path.join(ENGINE_DIR, "symgo")
MOD = "github.com/junegunn/fzf"
GOENV = dict(os.environ, GOFLAGS="-mod=mod", GOPROXY="off", GOSUMDB="off", GOTOOLCHAIN="local")
NCPU = os.cpu_count() or 4

PKGDIRS = {"algo": "src/algo", "util": "src/util", "src": "src"}


def log(*a):
    print(*a, file=sys.stderr, flush=True)


def build_engine():
    srcs = glob.glob(os.path.join(ENGINE_DIR, "*.go")) + [os.path.join(ENGINE_DIR, "go.mod")]
    if os.path.exists(ENGINE) and all(os.path.getmtime(ENGINE) >= os.path.getmtime(s) for s in srcs):
        return
    r = subprocess.run(["go", "build", "-o", ENGINE, "."], cwd=ENGINE_DIR, env=GOENV, capture_output=True, text=True)
    if r.returncode != 0:
        log(r.stdout + r.stderr)
        raise SystemExit(2)


def base_overlay(harness_dirs, extra=None):
    ov = {}
    for f in sorted(glob.glob(os.path.join(VERIF, "zzv", "*.go"))):
        ov[os.path.join(REPO, "src/zzv", os.path.basename(f))] = f
    for d in harness_dirs:
        for f in sorted(glob.glob(os.path.join(VERIF, "harness", d, "*.go"))):
            ov[os.path.join(REPO, PKGDIRS[d], os.path.basename(f))] = f
    if extra:
        ov.update(extra)
    return ov


def cross_check(xdir, tier):
    """Re-asks the sampled queries to z3 4.8.12 and cvc5 1.0; returns (checked, agreed, skipped, disagreements)."""
    files = sorted(glob.glob(os.path.join(xdir, "*.smt2")))
    limit = 40 if tier == "quick" else 400
    if len(files) > limit:
        step = len(files) / float(limit)
        files = [files[int(i * step)] for i in range(limit)]
    checked = agreed = skipped = 0
    bad = []
    from concurrent.futures import ThreadPoolExecutor
    def one(f):
        want = "unsat" if f.endswith("_unsat.smt2") else "sat"
        res = {}
        for name, cmd in (("z3-4.8.12", ["/usr/bin/z3", "-smt2", "-T:20", f]), ("cvc5-1.0", ["cvc5", "--lang=smt2", "--tlimit=20000", f])):
            text = open(f).read()
            tmp = f + "." + name + ".q"
            open(tmp, "w").write(text)
            cmd[-1] = tmp
            try:
                r = subprocess.run(cmd, capture_output=True, text=True, timeout=40)
                out = r.stdout.strip().split("\n")[0] if r.stdout.strip() else ""
                if "error" in r.stdout:
                    out = "error"
            except subprocess.TimeoutExpired:
                out = "timeout"
            res[name] = out
            os.remove(tmp)
        return f, want, res
    with ThreadPoolExecutor(max_workers=NCPU) as ex:
        for f, want, res in ex.map(one, files):
            for name, out in res.items():
                checked += 1
                if out == want:
                    agreed += 1
                elif out in ("sat", "unsat"):
                    bad.append(dict(file=os.path.basename(f), primary=want, solver=name, answer=out))
                else:
                    skipped += 1
    return dict(queries_sampled=len(files), answers_checked=checked, agreed=agreed, no_answer=skipped, disagreements=bad)


def run_engine(work, overlay, jobs, patterns, solver="z3new", qtimeout=60000, workers=None, tag="sym", xdir=None):
    ovf = os.path.join(work, tag + "_overlay.json")
    jf = os.path.join(work, tag + "_jobs.json")
    of = os.path.join(work, tag + "_out.json")
    # go/packages overlay must not contain _test files of other packages problems: keep as is
    json.dump({k: v for k, v in overlay.items() if not k.endswith("_test.go")}, open(ovf, "w"))
    json.dump(jobs, open(jf, "w"))
    cmd = [ENGINE, "-repo", REPO, "-overlay", ovf, "-jobs", jf, "-out", of, "-workers", str(workers or NCPU),
           "-solver", solver, "-qtimeout", str(qtimeout), "-patterns", patterns]
    if xdir:
        os.makedirs(xdir, exist_ok=True)
        cmd += ["-xdir", xdir, "-xevery", os.environ.get("VERIF_XEVERY", "25")]
    t0 = time.time()
    r = subprocess.run(cmd, env=GOENV, capture_output=True, text=True)
    if r.returncode != 0 or not os.path.exists(of):
        return {"error": (r.stdout + r.stderr)[-4000:], "jobs": [], "wall_s": time.time() - t0}
    res = json.load(open(of))
    res["stderr"] = r.stderr[-2000:]
    return res


def native_run(work, overlay, pkg, runs, tag="native", timeout=900):
    """Run harnesses natively (go test -overlay) on the given replay entries."""
    gov = os.path.join(work, tag + "_gooverlay.json")
    json.dump({"Replace": overlay}, open(gov, "w"))
    rf = os.path.join(work, tag + "_runs.json")
    of = os.path.join(work, tag + "_out.jsonl")
    json.dump(runs, open(rf, "w"))
    # scratch files of the harnesses and of fzf itself (history, temp scripts, fifos) stay inside the work dir
    tmpd = os.path.join(work, "tmp")
    os.makedirs(tmpd, exist_ok=True)
    env = dict(GOENV, ZZV_REPLAY=rf, ZZV_OUT=of, TMPDIR=tmpd)
    cmd = ["go", "test", "-vet=off", "-count=1", "-overlay", gov, "-run", "^TestZZReplay$", pkg]
    try:
        r = subprocess.run(cmd, cwd=REPO, env=env, capture_output=True, text=True, timeout=timeout)
    except subprocess.TimeoutExpired:
        return None, "native run timed out"
    outs = []
    if os.path.exists(of):
        for line in open(of):
            line = line.strip()
            if line:
                outs.append(json.loads(line))
    if len(outs) != len(runs):
        return None, "native run incomplete (%d of %d): %s" % (len(outs), len(runs), (r.stdout + r.stderr)[-3000:])
    return outs, ""


def load_known():
    known = {}
    p = os.path.join(VERIF, "known_findings.txt")
    if os.path.exists(p):
        for line in open(p):
            line = line.strip()
            if line.startswith("finding "):
                parts = dict(x.split("=", 1) for x in line.split()[1:3])
                known[(parts["property"], parts["key"])] = line
    return known


def eng_fail_ids(obs):
    ids = []
    for o in obs:
        if o.startswith("FAIL:assert:"):
            ids.append(o[len("FAIL:assert:"):])
    return ids


def main(argv):
    if not argv:
        print(__doc__)
        return 2
    if argv[0] == "build":
        build_engine()
        return 0
    prop = argv[0]
    tier = os.environ.get("VERIF_TIER", "quick")
    replay = None
    keep = False
    only = None
    i = 1
    while i < len(argv):
        if argv[i] == "--tier":
            tier = argv[i + 1]; i += 2
        elif argv[i] == "--replay":
            replay = argv[i + 1]; i += 2
        elif argv[i] == "--keep":
            keep = True; i += 1
        elif argv[i] == "--only":
            only = argv[i + 1]; i += 2
        else:
            log("unknown argument", argv[i]); return 2
    seed = int(os.environ.get("VERIF_SEED", "1"))
    build_engine()
    sys.path.insert(0, os.path.join(VERIF, "checks"))
    mod = importlib.import_module(prop)
    work = tempfile.mkdtemp(prefix="verif_%s_" % prop)
    try:
        if replay:
            return do_replay(prop, mod, work, replay)
        return do_check(prop, mod, tier, seed, work, only)
    finally:
        if keep:
            log("work dir kept:", work)
        else:
            shutil.rmtree(work, ignore_errors=True)


def suite_overlay(suite, work):
    extra = {}
    gen = suite.get("generate")
    if gen:
        extra = gen(REPO, work)  # may raise for "anchor not found" -> inconclusive
    return base_overlay(suite["harness_dirs"], extra)


def do_replay(prop, mod, work, path):
    rp = json.load(open(path))
    suites = {s["name"]: s for s in mod.suites("thorough")}
    s = suites[rp["suite"]]
    ov = suite_overlay(s, work)
    outs, err = native_run(work, ov, s["test_pkg"], [rp["replay"]])
    if outs is None:
        print("replay failed to run:", err)
        return 2
    o = outs[0]
    print(json.dumps(o, indent=1))
    want = rp.get("id")
    bad = o["end"].startswith("panic") or (want in o["failures"] if want else bool(o["failures"]))
    if bad:
        print("REPRODUCED property=%s %s" % (prop, want))
        return 1
    print("not reproduced")
    return 0


def do_check(prop, mod, tier, seed, work, only=None):
    t0 = time.time()
    known = load_known()
    suites = mod.suites(tier)
    if only:
        suites = [s for s in suites if s["name"] == only]
    status = "ok"
    reasons = []
    all_jobs = []
    violations = []      # confirmed, unlisted
    known_hits = {}
    unconfirmed = []
    traces_validated = 0
    diff_mismatch = []
    totals = dict(paths=0, steps=0, queries=0, sat=0, unsat=0, unknown=0, solver_cpu_s=0.0, pruned=0, nontrivial=0)
    funcs_encoded = set()
    xtotal = {}
    samples = []
    model_validation = None
    replay_dir = os.environ.get("VERIF_REPLAY_DIR", os.path.join(VERIF, "replays"))
    os.makedirs(replay_dir, exist_ok=True)

    for s in suites:
        try:
            ov = suite_overlay(s, work)
        except Exception as e:
            status = "inconclusive"; reasons.append("suite %s: overlay generation failed: %s" % (s["name"], e))
            continue
        jobs = s["jobs"]
        for j in jobs:
            j.setdefault("merge", os.environ.get("VERIF_NOMERGE", "") == "")
            j.setdefault("pkg", s["pkg"])
            j.setdefault("timeout_s", s.get("job_timeout_s", 600 if tier == "quick" else 3000))
            j.setdefault("nsamples", 4 if tier == "quick" else 8)
        log("[%s/%s] %d jobs, tier %s" % (prop, s["name"], len(jobs), tier))
        xdir = os.path.join(work, "xcheck_" + s["name"])
        res = run_engine(work, ov, jobs, s["patterns"], qtimeout=s.get("qtimeout", 60000 if tier == "quick" else 300000), tag=s["name"], xdir=xdir)
        if "error" in res:
            status = "inconclusive"; reasons.append("suite %s: engine failed: %s" % (s["name"], res["error"][-1500:]))
            continue
        xc = cross_check(xdir, tier)
        for k in ("queries_sampled", "answers_checked", "agreed", "no_answer"):
            xtotal[k] = xtotal.get(k, 0) + xc[k]
        if xc["disagreements"]:
            status = "inconclusive"
            reasons.append("solver disagreement on %d sampled quer(y/ies): %s" % (len(xc["disagreements"]), json.dumps(xc["disagreements"][:3])))
            xtotal.setdefault("disagreements", []).extend(xc["disagreements"][:5])
        for k in ("queries", "sat", "unsat", "unknown"):
            totals[k] += res.get(k, 0)
        totals["solver_cpu_s"] += res.get("solver_cpu_s", 0)
        jobmap = {j["id"]: j for j in jobs}
        declared_a, declared_r, hit_a, hit_r = {}, {}, {}, {}
        native_runs = []   # (kind, job, payload)
        for jr in res["jobs"]:
            all_jobs.append(dict(suite=s["name"], id=jr["id"], status=jr["status"], reason=jr.get("reason"), paths=jr["paths"],
                                 pruned=jr["pruned"], panic_paths=jr["panic_paths"], wall_s=round(jr["wall_s"], 2),
                                 solver_s=round(jr["solver_s"], 2), queries=jr["queries"], max_pc=jr.get("max_pc", 0)))
            totals["paths"] += jr["paths"] + jr["panic_paths"]
            totals["pruned"] += jr["pruned"] + jr["infeasible"]
            totals["steps"] += jr["steps"]
            totals["nontrivial"] += jr.get("nontrivial_paths", 0)
            totals["cache_hits"] = totals.get("cache_hits", 0) + (jr.get("queries") or {}).get("query_cache_hits", 0)
            totals["folded"] = totals.get("folded", 0) + sum(a["folded_true"] for a in (jr.get("asserts") or {}).values())
            totals["solver_checked"] = totals.get("solver_checked", 0) + sum(a["solver_checked"] for a in (jr.get("asserts") or {}).values())
            for f in jr.get("functions", []):
                funcs_encoded.add(f)
            h = jobmap[jr["id"]]["func"]
            for a in jr.get("declared_asserts") or []:
                declared_a.setdefault(h, set()).add(a)
            for a in jr.get("declared_reach") or []:
                declared_r.setdefault(h, set()).add(a)
            for a, st in (jr.get("asserts") or {}).items():
                hit_a.setdefault(h, {}).setdefault(a, 0)
                hit_a[h][a] += st["folded_true"] + st["solver_checked"]
            for a, n in (jr.get("reach") or {}).items():
                hit_r.setdefault(h, {}).setdefault(a, 0)
                hit_r[h][a] += n
            if jr["status"] in ("inconclusive", "vacuous"):
                status = "inconclusive"
                reasons.append("job %s: %s: %s" % (jr["id"], jr["status"], jr.get("reason")))
            job = jobmap[jr["id"]]
            for v in jr.get("violations") or []:
                native_runs.append(("viol", job, v))
            for sm in jr.get("samples") or []:
                if sm.get("model_vector") is not None:
                    native_runs.append(("sample", job, sm))
                if len(samples) < 6:
                    samples.append(dict(job=jr["id"], decisions=sm["decisions"][:200], path_condition_conjuncts=sm["pc_conjuncts"],
                                        model_vector=sm.get("model_vector")))
        # vacuity: every declared assertion / reach marker of a harness must be hit by some job
        for h, ids in declared_a.items():
            missing = [a for a in ids if hit_a.get(h, {}).get(a, 0) == 0 and not a.startswith("opt:")]
            if missing:
                status = "inconclusive"; reasons.append("vacuous: harness %s never evaluated assertion(s) %s" % (h, sorted(missing)))
        for h, ids in declared_r.items():
            missing = [a for a in ids if hit_r.get(h, {}).get(a, 0) == 0 and not a.startswith("opt:")]
            if missing:
                status = "inconclusive"; reasons.append("vacuous: harness %s never reached marker(s) %s" % (h, sorted(missing)))
        # native side: replay violations, and validate the interpreter on sample paths
        if native_runs:
            runs = []
            for kind, job, payload in native_runs:
                vec = payload["vector"] if kind == "viol" else payload["model_vector"]
                runs.append(dict(harness=job["func"], cfg=job.get("cfg", {}), cfgs=job.get("cfgs", {}), vector=vec))
            outs, err = native_run(work, ov, s["test_pkg"], runs, tag=s["name"] + "_native")
            if outs is None:
                status = "inconclusive"; reasons.append("suite %s: %s" % (s["name"], err))
                continue
            # engine in concrete mode on the sample vectors
            cjobs, cidx = [], []
            for n, (kind, job, payload) in enumerate(native_runs):
                if kind == "sample":
                    cj = dict(job); cj["id"] = "conc%d" % n; cj["vectors"] = [payload["model_vector"]]
                    cjobs.append(cj); cidx.append(n)
            cres = run_engine(work, ov, cjobs, s["patterns"], tag=s["name"] + "_conc") if cjobs else {"jobs": []}
            if "error" in cres:
                status = "inconclusive"; reasons.append("suite %s: concrete engine run failed: %s" % (s["name"], cres["error"][-800:]))
                cres = {"jobs": []}
            cmap = {jr["id"]: jr for jr in cres["jobs"]}
            for n, (kind, job, payload) in enumerate(native_runs):
                o = outs[n]
                if kind == "sample":
                    traces_validated += 1
                    cj = cmap.get("conc%d" % n)
                    eng_obs = (cj.get("obs") or [[]])[0] if cj else None
                    if eng_obs is None:
                        diff_mismatch.append(dict(job=job["id"], why="engine concrete run missing")); continue
                    eng_end = eng_obs[0].split("=", 1)[1]
                    eng_o = [x for x in eng_obs[1:] if not x.startswith("FAIL:")]
                    eng_f = eng_fail_ids(eng_obs)
                    nat_end = "panic" if o["end"].startswith("panic") else o["end"]
                    if eng_end != nat_end or eng_o != (o["obs"] or []) or sorted(eng_f) != sorted(o["failures"] or []):
                        diff_mismatch.append(dict(job=job["id"], vector=payload["model_vector"], engine=eng_obs, native=o))
                    elif o["failures"] or nat_end != "done":
                        diff_mismatch.append(dict(job=job["id"], vector=payload["model_vector"], why="path proved clean by the solver fails natively", native=o))
                else:
                    v = payload
                    reproduced = (v["kind"] == "panic" and o["end"].startswith("panic")) or (v["kind"] == "assert" and v["id"] in (o["failures"] or [])) \
                        or (v["kind"] == "assert" and o["end"].startswith("panic"))
                    rec = dict(property=prop, suite=s["name"], job=job["id"], kind=v["kind"], id=v["id"], pos=v["pos"],
                               replay=runs[n], native=o)
                    if not reproduced:
                        unconfirmed.append(rec)
                        continue
                    traces_validated += 1
                    key = v["id"][len("finding:"):] if v["id"].startswith("finding:") else None
                    if key and (prop, key) in known:
                        known_hits.setdefault(key, rec)
                        continue
                    violations.append(rec)
    if diff_mismatch:
        status = "inconclusive"
        reasons.append("interpreter/native disagreement on %d sample path(s): %s" % (len(diff_mismatch), json.dumps(diff_mismatch[0])[:1500]))
    if unconfirmed:
        status = "inconclusive"
        reasons.append("%d solver counterexample(s) did not reproduce natively (encoder or model wrong): %s" % (len(unconfirmed), json.dumps(unconfirmed[0])[:1500]))

    # report
    rc = 0
    for key, rec in sorted(known_hits.items()):
        print("KNOWN-FINDING: property=%s %s" % (prop, known[(prop, key)].split(" ", 3)[3] if len(known[(prop, key)].split(" ", 3)) > 3 else key))
    seen = set()
    for rec in violations:
        k = (rec["suite"], rec["id"], rec["pos"])
        if k in seen:
            continue
        seen.add(k)
        h = hashlib.sha1(json.dumps(rec["replay"], sort_keys=True).encode()).hexdigest()[:10]
        path = os.path.join(replay_dir, "%s_%s_%s.json" % (prop, rec["id"].replace("/", "_").replace(":", "_")[:40], h))
        json.dump(dict(property=prop, suite=rec["suite"], id=rec["id"], kind=rec["kind"], pos=rec["pos"], job=rec["job"],
                       replay=rec["replay"], native=rec["native"],
                       how="./check %s --replay %s" % (prop, path)), open(path, "w"), indent=1)
        print("VIOLATION property=%s replay=%s" % (prop, path))
        log("   %s %s at %s (job %s) vector=%s" % (rec["kind"], rec["id"], rec["pos"], rec["job"], rec["replay"]["vector"]))
        rc = 1
    if rc == 0 and status != "ok":
        rc = 2
        for r in reasons[:10]:
            print("INCONCLUSIVE: " + r[:3000])
    wall = time.time() - t0
    meta = getattr(mod, "META", {})
    ev = dict(
        property_id=prop, tier=tier, seed=seed, level="model_checking",
        coverage=dict(
            states=max(totals["paths"], 0), transitions=totals["steps"],
            traces_validated_against_impl=traces_validated,
            samples=samples or [dict(note="no path completed")],
            evaluations=totals["queries"], distinct_nontrivial=totals["paths"],
            rule="states = symbolic paths explored to completion (each is a distinct path condition covering all inputs that satisfy it); "
                 "transitions = SSA instructions executed symbolically; evaluations = solver queries discharged; "
                 "traces_validated = model vectors of sample paths and of counterexamples re-run against the natively compiled code",
            exhaustive=(status == "ok"),
            explanation=meta.get("explanation", ""),
            bounds=meta.get("bounds", {}).get(tier, meta.get("bounds")),
            outside_claim=meta.get("outside", []),
            functions_encoded=meta.get("functions", []),
            solver=dict(primary="z3 5.1.0 (z3-new -in, QF_BV, incremental)", queries=totals["queries"], sat=totals["sat"],
                        unsat=totals["unsat"], unknown=totals["unknown"], solver_cpu_s=round(totals["solver_cpu_s"], 2),
                        answered_from_query_cache=totals.get("cache_hits", 0),
                        assertion_instances_sent_to_solver=totals.get("solver_checked", 0),
                        assertion_instances_folded_to_true_by_the_term_simplifier=totals.get("folded", 0),
                        cross_check=dict(xtotal, note="a sample of the primary solver's sat/unsat answers re-asked to z3 4.8.12 and cvc5 1.0 as standalone QF_BV problems")),
            paths_pruned_or_infeasible=totals["pruned"],
            jobs=all_jobs,
            status=status, reasons=reasons[:20],
            known_findings_hit=sorted(known_hits.keys()),
            violations=[dict(id=r["id"], pos=r["pos"], job=r["job"], vector=r["replay"]["vector"]) for r in violations][:20],
            models_and_stubs=meta.get("models", []),
        ),
        assumptions=meta.get("assumptions", []),
        wall_s=round(wall, 2),
        violations=len(violations),
    )
    if totals["paths"] < 1 or totals["steps"] < 1:
        # nothing was explored (engine error, killed run): this is not model-checking evidence
        ev["level"] = "other"
        ev["coverage"]["explanation"] = "INCONCLUSIVE RUN, nothing explored: " + "; ".join(reasons[:3])[:600]

    evdir = os.environ.get("VERIF_EVIDENCE_DIR", os.path.join(VERIF, "evidence"))
    os.makedirs(evdir, exist_ok=True)
    json.dump(ev, open(os.path.join(evdir, prop + ".json"), "w"), indent=1)
    log("[%s] status=%s rc=%d paths=%d queries=%d wall=%.1fs" % (prop, status, rc, totals["paths"], totals["queries"], wall))
    return rc
