#!/bin/bash
# runs every claimed check at the given tier and prints one line each
tier=${1:-quick}
cd /verif
for p in $(python3 -c "import json;print(' '.join(c['property_id'] for c in json.load(open('MANIFEST.json'))['checks']))"); do
  s=$(date +%s); out=$(./check $p --tier $tier 2>&1); rc=$?; e=$(date +%s)
  echo "$p rc=$rc $((e-s))s $(echo "$out" | grep -E 'VIOLATION|INCONCLUSIVE' | head -2 | cut -c1-200)"
done
