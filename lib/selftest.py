#!/usr/bin/env python3
"""Sensitivity self-test (DESIGN §2.11): applies every seeded change under /verif/seeded to a scratch
worktree of /repo (outside /repo and /verif, removed afterwards), runs the checks named for it and
records which ones report a VIOLATION. Not part of quick/thorough.
usage: selftest.py [tier] [seed ids...]"""
import sys, os, json, subprocess, shutil, glob, tempfile, time
VERIF = os.path.dirname(os.path.dirname(os.path.abspath(__file__)))
ENV = dict(os.environ, GOFLAGS="-mod=mod", GOPROXY="off", GOSUMDB="off", GOTOOLCHAIN="local")

# which checks are expected to notice which seed (others may as well)
OWNERS = {
    "C01a": ["C02", "C01"], "C01b": ["C08"], "C02a": ["C02"], "C02b": ["C02"], "C03a": ["C03", "C05"], "C03b": ["C03", "C05"],
    "C04a": ["C04"], "C04b": ["C01"], "C05a": ["C05"], "C05b": ["C05"], "C06a": ["C06"], "C06b": ["C06", "C13"],
    "C07a": ["C06"], "C07b": ["C07"], "C08a": ["C08", "C01"], "C08b": ["C08", "C13"], "C09a": ["C09"], "C09b": ["C09"],
    "C10a": ["C10"], "C10b": ["C10"], "C11a": ["C11"], "C11b": ["C11"], "C12a": ["C12"], "C12b": ["C12"],
    "C02c": ["C02"], "C03c": ["C03"], "C04c": ["C04"], "C05c": ["C05"], "C06c": ["C06"], "C10c": ["C10"], "C11c": ["C11"], "C18c": ["C18"],
    "C01d": ["C01"], "C02d": ["C02"], "C03d": ["C03"], "C04d": ["C04"], "C05d": ["C05"], "C06d": ["C06", "C13"], "C07d": ["C07", "C11"], "C08d": ["C08", "C10"],
    "C09d": ["C09"], "C10d": ["C10"], "C11d": ["C11"], "C12d": ["C12"], "C13d": ["C13", "C08", "C04"], "C16d": ["C16"], "C18d": ["C18"], "C19d": ["C19"],
    "C01c": ["C02"], "C07c": ["C07"], "C08c": ["C08", "C04"], "C12c": ["C12"], "C13c": ["C13", "C06"], "C16c": ["C16"], "C19c": ["C19"],
    "C13a": ["C06"], "C13b": ["C13"], "C16a": ["C16"], "C16b": ["C16"], "C18a": ["C18"], "C18b": ["C18"], "C19a": ["C19"], "C19b": ["C19"],
}

def sh(cmd, cwd=None, env=ENV, timeout=7200):
    r = subprocess.run(cmd, shell=True, cwd=cwd, env=env, capture_output=True, text=True, timeout=timeout)
    return r.returncode, r.stdout + r.stderr

def main():
    tier = sys.argv[1] if len(sys.argv) > 1 else "quick"
    only = sys.argv[2:]
    wt = tempfile.mkdtemp(prefix="selftest_wt_")
    os.rmdir(wt)
    rc, out = sh("git -C /repo worktree add --detach %s HEAD" % wt)
    if rc:
        print(out); return 2
    scratch = tempfile.mkdtemp(prefix="selftest_ev_")
    results = []
    try:
        for d in sorted(glob.glob(os.path.join(VERIF, "seeded", "*"))):
            sid = os.path.basename(d)
            if only and sid not in only:
                continue
            sh("git checkout -- . && git clean -fdq", cwd=wt)
            rc, out = sh("git apply %s/patch.diff" % d, cwd=wt)
            if rc:
                results.append(dict(seed=sid, error="patch does not apply: " + out[-200:])); continue
            row = dict(seed=sid, property=sid[:3], checks={})
            for chk in OWNERS.get(sid, [sid[:3]]):
                env = dict(ENV, VERIF_REPO=wt, VERIF_EVIDENCE_DIR=scratch, VERIF_REPLAY_DIR=scratch)
                t0 = time.time()
                rc, out = sh("./check %s --tier %s" % (chk, tier), cwd=VERIF, env=env)
                viol = [l.split("replay=")[0].strip() for l in out.splitlines() if l.startswith("VIOLATION")]
                ids = sorted(set(os.path.basename(l.split("replay=")[1]).split("_")[1] for l in out.splitlines() if l.startswith("VIOLATION")))
                row["checks"][chk] = dict(rc=rc, caught=(rc == 1), assertions=ids[:4], wall_s=round(time.time() - t0, 1))
            row["caught_by"] = [c for c, v in row["checks"].items() if v["caught"]]
            results.append(row)
            print(json.dumps(row), flush=True)
    finally:
        sh("git -C /repo worktree remove --force %s" % wt)
        shutil.rmtree(scratch, ignore_errors=True)
    os.makedirs(os.path.join(VERIF, "evidence"), exist_ok=True)
    # a partial run (seed ids given) replaces only those rows of the stored result
    outp = os.path.join(VERIF, "evidence", "selftest_%s.json" % tier)
    if only and os.path.exists(outp):
        try:
            old = json.load(open(outp))["results"]
        except Exception:
            old = []
        done = set(r["seed"] for r in results)
        results = sorted([r for r in old if r["seed"] not in done] + results, key=lambda r: r["seed"])
    json.dump(dict(tier=tier, at=time.strftime("%Y-%m-%dT%H:%M:%SZ", time.gmtime()), results=results,
                   caught=sum(1 for r in results if r.get("caught_by")), total=len(results)),
              open(os.path.join(VERIF, "evidence", "selftest_%s.json" % tier), "w"), indent=1)
    return 0

if __name__ == "__main__":
    sys.exit(main())
