NOTE = ("bounded: holds for every input inside the bounds listed in the evidence file, nothing outside; trusted: go/ssa as the meaning "
        "of the source, the executor (validated against native runs on sample paths each run), the zzv library models, z3, the reference oracles")
CLAIMED = {
    "C02": dict(ref="DESIGN.md §3 C02", note=NOTE,
                text="For all texts/patterns within the bounds every matcher result is checked by the solver against an independent witness/"
                     "completeness oracle, and every panic site is an obligation; bounded model checking is the right level because the property "
                     "is a for-all over inputs of a pure function whose interesting cases are rare alignments."),
    "C03": dict(ref="DESIGN.md §3 C03", note=NOTE,
                text="FuzzyMatchV2's score is proved equal to a naive whole-line evaluation of the documented recurrence and bounded by the best existing "
                     "alignment, and V1/exact/prefix/suffix/boundary/equal scores equal the score of the reported occurrence, for every text and pattern "
                     "inside the bounds; the solver covers all character-class combinations at once, which sampling cannot."),
    "C05": dict(ref="DESIGN.md §3 C05", note=NOTE,
                text="Each matcher is run twice on the same symbolic input: zeroed slab vs a slab whose every cell is an unconstrained symbol, bytes vs "
                     "runes, with vs without positions; the solver proves the results identical for every input and every stale slab content inside "
                     "the bounds - the arbitrary-history quantifier that tests with a nil slab cannot reach."),
    "C11": dict(ref="DESIGN.md §3 C11", note=NOTE,
                text="nextAnsiEscapeSequence is proved equal to a leftmost-first matcher of its documented regex, and extractColor's kept text equal to "
                     "the input minus those matches with well-formed spans, for every byte string up to the bound (arbitrary bytes, not a generator's)."),
    "C10": dict(ref="DESIGN.md §3 C10", note=NOTE,
                text="Field splitting (AWK-style and literal delimiters), range-expression parsing and Transform are decided for every line / expression "
                     "/ bound inside the limits against independent reference definitions; exhaustive over small bounds is what the property asks for."),
    "C18": dict(ref="DESIGN.md §3 C18", note=NOTE,
                text="All initial file contents, size limits and navigation/edit/submit sequences inside the bounds are explored symbolically over the real "
                     "History code in two consecutive sessions and compared with a list model; exhaustive inside the bound, where tests sample one history."),
    "C06": dict(ref="DESIGN.md §3 C06", note=NOTE,
                text="Reader.feed with scaled buffer constants is executed against a nondeterministic reader (every cut of every stream inside the bound, "
                     "every error class) and compared with a stream-split oracle at the end, so that later overwrites of earlier records show; the chunk "
                     "list is explored over all push/snapshot interleavings with and without --tail."),
    "C13": dict(ref="DESIGN.md §3 C13", note=NOTE + "; partial: sequential core only, no goroutines, no memory model",
                text="Snapshot isolation of the chunk list under every sequence of pushes and snapshots, and the ChunkCache's full-chunk-only rule, are decided "
                     "exhaustively inside the bound; data races and the cancellation protocol of scan are NOT claimed."),
    "C04": dict(ref="DESIGN.md §3 C04", note=NOTE + "; partial: buildResult's positional keys and the goroutines of scan are outside",
                text="The rank comparator (both build variants) is proved to be the documented lexicographic order for all 2^64 keys and indices; the lazy "
                     "merger is proved to return the stable global order for arbitrary probe orders; pass-through mergers and partitioning for partial chunks."),
    "C01": dict(ref="DESIGN.md §3 C01", note=NOTE + "; decomposed: parse leg + glue leg at small bounds; per-kind matcher specifications are C02's",
                text="Queries generated from the documented grammar are parsed symbolically (term texts symbolic) and must come out exactly as documented; parse and "
                     "the real matchers together must report a line iff it satisfies the query, for every line and query inside the bounds."),
    "C08": dict(ref="DESIGN.md §3 C08", note=NOTE + "; partial: sequential pieces only, nothing timed",
                text="Every sequence of queries inside the bound is run through the real per-chunk result cache and must equal an uncached filter after every step; "
                     "the conditions under which a narrower search scope may be reused are checked on grammar-generated queries. Timing/coalescing is NOT claimed."),
    "C12": dict(ref="DESIGN.md §3 C12", note=NOTE + "; partial: quoting functions, replacePlaceholder on a fixed template list, runTmux's argument re-quoting; the shell-lexing reference is trusted",
                text="QuoteEntry (sh and fish escapers) and escapeSingleQuote are decided, for every entry over an alphabet of shell metacharacters up to the bound, to be "
                     "read back by a model of shell word lexing as exactly one word equal to the entry; the whole replacePlaceholder is decided on a fixed list of templates with "
                     "symbolic item texts and queries; runTmux's command line is decided to lex under POSIX rules into the original argument vector whatever the user's shell. "
                     "Other templates, {f} temp files, the export lines of runProxy and the real shells are NOT claimed."),
    "C16": dict(ref="DESIGN.md §3 C16", note=NOTE + "; partial: request handling and server start-up logic; sockets (native replays only), timeouts and action execution are outside",
                text="The authorisation / framing logic of handleHttpRequest is decided for all requests assembled from the token grammar (any header order, key, "
                     "content length, body, early close) under every cut of the stream into reads, with the real bufio.Scanner and split closure; startHttpServer is decided with "
                     "net.Listen modelled (remote listener refused without key; the enforced key is exactly the configured one) and parseListenAddress against an independent parser."),
    "C07": dict(ref="DESIGN.md §3 C07", note=NOTE + "; partial: lifted closures of Run only; framing, exit codes and interactive accept are outside",
                text="The streaming-filter pusher and both item builders of Run are lifted verbatim from the current source and executed on symbolic records: every printed "
                     "line must be an original input record, and AsString must return the input bytes under --with-nth and --header-lines."),
    "C19": dict(ref="DESIGN.md §3 C19", note=NOTE + "; partial: readFiles with fastwalk modelled; the real fastwalk and file system run only in the native replays",
                text="The walker callback, lifted verbatim from readFiles, is decided for every path inside the bound, file or directory, under all option "
                     "combinations and a skip list; the whole readFiles is decided over small trees (hidden entries, one symbolic link incl. a cycle, five skip lists, "
                     "file/dir/hidden/follow) with fastwalk.Walk replaced by a model that the native replays compare with the real fastwalk; parseWalkerOpts on word lists. "
                     "fastwalk's own traversal, file-system errors and larger trees are NOT claimed."),
    "C09": dict(ref="DESIGN.md §3 C09", note=NOTE + "; partial: the doAction dispatcher (lifted) and leaf helpers; the key loop around it is outside",
                text="The action dispatcher doAction, lifted verbatim from Terminal.Loop, is decided against a readline-style reference editor for every sequence of editing actions "
                     "up to the bound and against the multi-select / cursor rules for every sequence of selection and navigation actions up to the bound (current results a "
                     "sub-list of the loaded items, --multi limit, --cycle, layout, paging in single-line mode); plus cursor and selection primitives and UpdateList's selection handling. "
                     "The key loop around the dispatcher, command-running actions, --track and multi-line layouts are NOT claimed."),
}
PENDING = "check not built yet in this session (planned, see DESIGN.md §3)"
NA = {
       
       
    "C14": "terminal modes, child processes, signals and the goroutine/channel render loop are OS effects and schedules, not a bounded computation the SSA→SMT encoder can make symbolic (DESIGN.md §6)",
    "C15": "relation between the whole Terminal state and the byte stream written through tui.Window; thousands of lines of drawing code on uniseg tables with no leaf whose correctness implies the property (DESIGN.md §6)",
    "C17": "option/bind parsing is decided inside Go's regexp engine (a 400-character alternation and regexes compiled from input); a symbolic regexp is out of reach and contract stubs would create unreal states (DESIGN.md §6)",
    "C20": "three goroutines per preview command, process groups, kill signals and real time; no sequential core whose correctness implies the property (DESIGN.md §6)",
}
