#!/bin/bash
# usage: seedtest.sh <patch.diff> <prop> [tier]  -- applies a seeded change to /repo, runs the check, reverts
set -u
patch=$1; prop=$2; tier=${3:-quick}
cd /repo || exit 9
if ! git diff --quiet; then echo "repo dirty"; exit 9; fi
git apply "$patch" || { echo "patch does not apply"; exit 9; }
cd /verif && ./check "$prop" --tier "$tier" 2>&1 | grep -E "VIOLATION|KNOWN|INCONCLUSIVE|status=" | cut -c1-400
rc=${PIPESTATUS[0]}
git -C /repo checkout -- .
rm -f /verif/replays/*.json
git -C /verif checkout -- evidence 2>/dev/null
echo "rc=$rc"
