#!/usr/bin/env python3
"""Regenerates MANIFEST.json from the table below (kept in one place so it stays valid)."""
import json, os
VERIF = os.path.dirname(os.path.dirname(os.path.abspath(__file__)))

CLAIMED = {
    # id: (design_ref, text, note)
}
NA = {}

def load_tables():
    import importlib.util
    spec = importlib.util.spec_from_file_location("manifest_tables", os.path.join(VERIF, "lib", "manifest_tables.py"))
    m = importlib.util.module_from_spec(spec); spec.loader.exec_module(m)
    return m.CLAIMED, m.NA

def main():
    claimed, na = load_tables()
    checks = []
    for pid in sorted(claimed):
        c = claimed[pid]
        checks.append(dict(
            property_id=pid,
            quick_cmd="./check %s --tier quick" % pid,
            thorough_cmd="./check %s --tier thorough" % pid,
            evidence_file="/verif/evidence/%s.json" % pid,
            replay_cmd_template="./check %s --replay {path}" % pid,
            engine="symgo",
            level_claimed=dict(category="model_checking", text=c["text"], design_ref=c["ref"]),
            level_note=c["note"],
            technique="bounded symbolic execution of the real Go code (go/ssa -> QF_BV SMT, z3); counterexamples replayed natively",
        ))
    man = dict(
        version=1,
        setup_cmd="cd /verif/engine && GOFLAGS=-mod=mod GOPROXY=off GOSUMDB=off GOTOOLCHAIN=local go build -o symgo .",
        hooks=dict(guard="verif", enable="none needed: harnesses, intrinsics and scaled constants are injected through go/packages and `go test -overlay` overlays; /repo is never modified by a check",
                   baseline_off_cmd="cd /repo && GOFLAGS=-mod=mod go test -json -vet=off -count=1 -timeout 25m ./...",
                   source_commits=[], add_only=True),
        engines=[dict(name="symgo", path="/verif/engine", serves_properties=sorted(claimed),
                      kind_free_text="own symbolic executor over go/ssa (x/tools v0.29.0): fork by decision replay, guarded merging of small regions, QF_BV terms, z3 5.1.0 primary, native replay of every counterexample")],
        checks=checks,
        notes="See DESIGN.md. Exit 0 = held within the stated bounds; exit 1 + VIOLATION line = natively reproduced counterexample; exit 2 = inconclusive (never a VIOLATION).",
        not_applicable=[dict(property_id=k, reason=v) for k, v in sorted(na.items())],
    )
    json.dump(man, open(os.path.join(VERIF, "MANIFEST.json"), "w"), indent=1)

if __name__ == "__main__":
    main()
