#!/usr/bin/env python3
"""For every `fixed:` entry of known_findings.txt: undo that repair in a scratch worktree of /repo
(git revert -n) and run the owning check there - the violation has to come back.
usage: fixtest.py [tier]; result in evidence/fixtest_<tier>.json. Not part of quick/thorough."""
import sys, os, json, subprocess, tempfile, shutil, time, re
VERIF = os.path.dirname(os.path.dirname(os.path.abspath(__file__)))
ENV = dict(os.environ, GOFLAGS="-mod=mod", GOPROXY="off", GOSUMDB="off", GOTOOLCHAIN="local")
ALSO = {"ac4f38f": ["C02"], "0cc3cab": ["C13", "C08"]}

def sh(cmd, cwd=None, env=ENV, timeout=7200):
    r = subprocess.run(cmd, shell=True, cwd=cwd, env=env, capture_output=True, text=True, timeout=timeout)
    return r.returncode, r.stdout + r.stderr

def main():
    tier = sys.argv[1] if len(sys.argv) > 1 else "quick"
    fixes = {}
    for line in open(os.path.join(VERIF, "known_findings.txt")):
        m = re.match(r"fixed: property=(C\d+) ([0-9a-f]{7,})", line)
        if m:
            fixes.setdefault(m.group(2), []).append(m.group(1))
    wt = tempfile.mkdtemp(prefix="fixtest_wt_"); os.rmdir(wt)
    rc, out = sh("git -C /repo worktree add --detach %s HEAD" % wt)
    if rc:
        print(out); return 2
    scratch = tempfile.mkdtemp(prefix="fixtest_ev_")
    rows = []
    try:
        for commit, props in fixes.items():
            sh("git checkout -- . && git clean -fdq", cwd=wt)
            rc, out = sh("git revert -n --no-edit %s" % commit, cwd=wt)
            if rc:
                sh("git revert --abort; git checkout -- .", cwd=wt)
                rows.append(dict(commit=commit, properties=props, error="revert does not apply cleanly (later repairs touch the same lines)")); print(rows[-1], flush=True); continue
            sh("git reset -q", cwd=wt)
            row = dict(commit=commit, properties=props, checks={})
            for chk in sorted(set(props + ALSO.get(commit, []))):
                env = dict(ENV, VERIF_REPO=wt, VERIF_EVIDENCE_DIR=scratch, VERIF_REPLAY_DIR=scratch)
                t0 = time.time()
                rc, out = sh("./check %s --tier %s" % (chk, tier), cwd=VERIF, env=env)
                ids = sorted(set(os.path.basename(l.split("replay=")[1]).split("_")[1] for l in out.splitlines() if l.startswith("VIOLATION")))
                row["checks"][chk] = dict(rc=rc, violation_returns=(rc == 1), assertions=ids[:4], wall_s=round(time.time() - t0, 1))
            rows.append(row); print(json.dumps(row), flush=True)
    finally:
        sh("git -C /repo worktree remove --force %s" % wt)
        shutil.rmtree(scratch, ignore_errors=True)
    json.dump(dict(tier=tier, at=time.strftime("%Y-%m-%dT%H:%M:%SZ", time.gmtime()), results=rows),
              open(os.path.join(VERIF, "evidence", "fixtest_%s.json" % tier), "w"), indent=1)
    return 0

if __name__ == "__main__":
    sys.exit(main())
