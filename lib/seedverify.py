#!/usr/bin/env python3
"""Confirms a seeded change: demo passes on the unchanged tree, full suite passes with the change, demo fails with it.
usage: seedverify.py <seed_out_dir> [...]; copies confirmed seeds to /verif/seeded/<id>/"""
import sys, os, json, subprocess, shutil
ENV = dict(os.environ, GOFLAGS="-mod=mod", GOPROXY="off", GOSUMDB="off", GOTOOLCHAIN="local")
WT = "/tmp/seedval"

def sh(cmd, cwd=WT, timeout=1200):
    r = subprocess.run(cmd, shell=True, cwd=cwd, env=ENV, capture_output=True, text=True, timeout=timeout)
    return r.returncode, (r.stdout + r.stderr)

def clean():
    sh("git checkout -- . && git clean -fdq")

def main():
    if not os.path.isdir(WT):
        rc, out = sh("git -C /repo worktree add --detach %s HEAD" % WT, cwd="/")
        if rc: print(out); sys.exit(1)
    else:
        sh("git checkout -q --detach $(git -C /repo rev-parse HEAD)"); clean()
    for d in sys.argv[1:]:
        d = d.rstrip("/")
        sid = os.path.basename(d)
        meta = json.load(open(os.path.join(d, "meta.json")))
        demo = meta["demo_cmd"].replace("/tmp/seedwt_%s" % meta["property"], WT).replace("/tmp/seedwt2_%s" % meta["property"], WT).replace("/tmp/seedwt3_%s" % meta["property"], WT)
        import re
        demo = re.sub(r"\s*;\s*rm -f \S+\s*$", "", demo)  # the exit status must be the demo's
        res = dict(id=sid)
        clean()
        rc, out = sh(demo); res["demo_on_unchanged"] = "pass" if rc == 0 else "FAIL"
        clean()
        rc, out = sh("git apply %s/patch.diff" % d)
        if rc: res["apply"] = "FAIL: " + out[-300:]; print(res); continue
        rc, out = sh("go build ./... && go test -vet=off -count=1 ./...")
        res["suite_with_change"] = "pass" if rc == 0 else "FAIL"
        rc, out2 = sh(demo); res["demo_with_change"] = "fail" if rc != 0 else "PASSES(bad)"
        res["demo_output_tail"] = out2[-400:]
        clean()
        ok = res["demo_on_unchanged"] == "pass" and res["suite_with_change"] == "pass" and res["demo_with_change"] == "fail"
        res["confirmed"] = ok
        print(json.dumps({k: v for k, v in res.items() if k != "demo_output_tail"}))
        if ok:
            dst = "/verif/seeded/%s" % sid
            os.makedirs(dst, exist_ok=True)
            for f in os.listdir(d):
                shutil.copy(os.path.join(d, f), dst)
            meta["verified_by_me"] = dict(worktree_commit=subprocess.run("git -C /repo rev-parse --short HEAD", shell=True, capture_output=True, text=True).stdout.strip(),
                                          ran=["demo on unchanged tree: pass", "go build ./... && go test -vet=off -count=1 ./... with change: pass", "demo with change: fail"],
                                          demo_cmd=demo, demo_output_tail=res["demo_output_tail"])
            json.dump(meta, open(os.path.join(dst, "meta.json"), "w"), indent=1)

if __name__ == "__main__":
    main()
