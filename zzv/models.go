package zzv

// Go models of library functions that are backed by assembly or by unsafe
// builders. The engine redirects calls to the real functions here (table
// `redirects` in engine/intrinsics.go). Each model is validated natively against
// the real function on an exhaustive small domain (models_test.go, run by
// `check` before every solver run).

func M_bytealg_IndexByte(b []byte, c byte) int {
	for i, x := range b {
		if x == c {
			return i
		}
	}
	return -1
}

func M_bytealg_IndexByteString(s string, c byte) int {
	for i := 0; i < len(s); i++ {
		if s[i] == c {
			return i
		}
	}
	return -1
}

func M_bytealg_LastIndexByte(b []byte, c byte) int {
	for i := len(b) - 1; i >= 0; i-- {
		if b[i] == c {
			return i
		}
	}
	return -1
}

func M_bytealg_LastIndexByteString(s string, c byte) int {
	for i := len(s) - 1; i >= 0; i-- {
		if s[i] == c {
			return i
		}
	}
	return -1
}

func M_bytealg_Count(b []byte, c byte) int {
	n := 0
	for _, x := range b {
		if x == c {
			n++
		}
	}
	return n
}

func M_bytealg_CountString(s string, c byte) int {
	n := 0
	for i := 0; i < len(s); i++ {
		if s[i] == c {
			n++
		}
	}
	return n
}

func M_bytealg_Compare(a, b []byte) int {
	n := len(a)
	if len(b) < n {
		n = len(b)
	}
	for i := 0; i < n; i++ {
		if a[i] < b[i] {
			return -1
		}
		if a[i] > b[i] {
			return 1
		}
	}
	if len(a) < len(b) {
		return -1
	}
	if len(a) > len(b) {
		return 1
	}
	return 0
}

func M_bytealg_Equal(a, b []byte) bool {
	if len(a) != len(b) {
		return false
	}
	for i := range a {
		if a[i] != b[i] {
			return false
		}
	}
	return true
}

func M_strings_Index(s, sub string) int {
	n := len(sub)
	for i := 0; i+n <= len(s); i++ {
		if s[i:i+n] == sub {
			return i
		}
	}
	return -1
}

func M_bytes_Index(s, sub []byte) int {
	n := len(sub)
	for i := 0; i+n <= len(s); i++ {
		if string(s[i:i+n]) == string(sub) {
			return i
		}
	}
	return -1
}

func M_strings_LastIndex(s, sub string) int {
	n := len(sub)
	for i := len(s) - n; i >= 0; i-- {
		if s[i:i+n] == sub {
			return i
		}
	}
	return -1
}

func M_strings_Count(s, sub string) int {
	if len(sub) == 0 {
		n := 0
		for range s {
			n++
		}
		return n + 1
	}
	n := 0
	for {
		i := M_strings_Index(s, sub)
		if i == -1 {
			return n
		}
		n++
		s = s[i+len(sub):]
	}
}

// M_regexp_SplitSpaces models (*regexp.Regexp).Split(s, -1) for the literal pattern " +".
func M_regexp_SplitSpaces(s string) []string {
	if len(s) == 0 {
		return []string{""}
	}
	out := []string{}
	beg := 0
	i := 0
	for i < len(s) {
		if s[i] == ' ' {
			j := i
			for j < len(s) && s[j] == ' ' {
				j++
			}
			out = append(out, s[beg:i])
			beg = j
			i = j
		} else {
			i++
		}
	}
	return append(out, s[beg:])
}

// M_Replacer_Replace models (*strings.Replacer).Replace for a replacer built from the given
// old/new pairs: replacements are performed in the order they appear in the target string,
// without overlapping matches; old strings are compared in argument order.
func M_Replacer_Replace(pairs []string, s string) string {
	out := []byte{}
	for i := 0; i < len(s); {
		matched := false
		for p := 0; p+1 < len(pairs); p += 2 {
			old := pairs[p]
			if len(old) > 0 && i+len(old) <= len(s) && s[i:i+len(old)] == old {
				out = append(out, pairs[p+1]...)
				i += len(old)
				matched = true
				break
			}
		}
		if !matched {
			out = append(out, s[i])
			i++
		}
	}
	return string(out)
}

// M_getRegex_FindStringSubmatch models FindStringSubmatch for the literal
// `^GET /(?:\?([a-z0-9=&]+))? HTTP` (server.go): nil if no match, else [whole, group].
func M_getRegex_FindStringSubmatch(s string) []string {
	const pre = "GET /"
	if len(s) < len(pre) || s[:len(pre)] != pre {
		return nil
	}
	i := len(pre)
	group := ""
	// optional group, tried first (greedy ?), with backtracking to "absent"
	if i < len(s) && s[i] == '?' {
		j := i + 1
		for j < len(s) && (s[j] >= 'a' && s[j] <= 'z' || s[j] >= '0' && s[j] <= '9' || s[j] == '=' || s[j] == '&') {
			j++
		}
		// the class is greedy but may give characters back; " HTTP" starts with a space, which is
		// not in the class, so only the full run can be followed by it
		if j > i+1 && len(s) >= j+5 && s[j:j+5] == " HTTP" {
			group = s[i+1 : j]
			return []string{s[:j+5], group}
		}
	}
	if len(s) >= i+5 && s[i:i+5] == " HTTP" {
		return []string{s[:i+5], ""}
	}
	return nil
}


// M_errors_Is: errors.Is without the reflection-based comparability test (the error values the
// harnesses meet are comparable): identity along the Unwrap chain, or an Is method that says so.
func M_errors_Is(err, target error) bool {
	if err == nil || target == nil {
		return err == target
	}
	for {
		if err == target {
			return true
		}
		if x, ok := err.(interface{ Is(error) bool }); ok && x.Is(target) {
			return true
		}
		u, ok := err.(interface{ Unwrap() error })
		if !ok {
			return false
		}
		err = u.Unwrap()
		if err == nil {
			return false
		}
	}
}
