package zzv

import (
	"errors"
	"io/fs"
	"os"
)

// A tiny virtual file system used by the engine in place of os.ReadFile / os.WriteFile /
// os.Remove (redirect table in engine/intrinsics.go). Natively the real functions are
// used on a scratch file, so a replayed counterexample exercises the real file system.

var vfs = map[string][]byte{}

var errNotExist = errors.New("file does not exist")

func M_os_ReadFile(name string) ([]byte, error) {
	d, ok := vfs[name]
	if !ok {
		return nil, errNotExist
	}
	cp := make([]byte, len(d))
	copy(cp, d)
	return cp, nil
}

func M_os_WriteFile(name string, data []byte, perm fs.FileMode) error {
	cp := make([]byte, len(data))
	copy(cp, data)
	vfs[name] = cp
	return nil
}

func M_os_Remove(name string) error {
	delete(vfs, name)
	return nil
}

func M_os_IsNotExist(err error) bool   { return err == errNotExist }
func M_os_IsPermission(err error) bool { return false }

// ScratchFile prepares a scratch file with the given content (or makes sure it does not exist)
// and returns its path.
func ScratchFile(tag string, data []byte, exists bool) string {
	path := scratchPath(tag)
	os.Remove(path)
	if exists {
		os.WriteFile(path, data, 0600)
	}
	return path
}

// ReadBack returns the current content of a scratch file (nil if missing).
func ReadBack(path string) ([]byte, bool) {
	d, err := os.ReadFile(path)
	if err != nil {
		return nil, false
	}
	return d, true
}

// Real-file-system helpers for harnesses that drive code walking directories. The engine treats
// them as no-ops (its model of the walker reads the tree description the harness keeps).
func FSEnterTemp(tag string) {
	dir := scratchPath(tag) + "_tree"
	os.RemoveAll(dir)
	os.MkdirAll(dir, 0755)
	os.Chdir(dir)
}
func FSMkdir(p string) { os.MkdirAll(p, 0755) }
func FSTouch(p string) { os.WriteFile(p, []byte("x"), 0644) }
func FSSymlink(target, p string) { os.Symlink(target, p) }

// FakeCommand (native replays only; the engine returns "" and does nothing): puts an executable
// called name first on PATH that copies the file named by its last argument to the returned path
// and exits 0. Lets the real re-launch code run to the point where it would start the command.
func FakeCommand(name string) string {
	dir := scratchPath("bin_" + name)
	os.RemoveAll(dir)
	os.MkdirAll(dir, 0755)
	out := dir + "/captured"
	script := "#!/bin/sh\nfor a; do last=$a; done\ncp \"$last\" '" + out + "'\nexit 0\n"
	os.WriteFile(dir+"/"+name, []byte(script), 0755)
	os.Setenv("PATH", dir+":"+os.Getenv("PATH"))
	return out
}

// os.OpenFile for writing, as far as the engine models it (intrinsics os.OpenFile,
// (*os.File).Write/WriteString/Close): creation, truncation, and sequential writes that land at the
// end of the file (O_APPEND, or a file just truncated or created).
func M_os_OpenFileCheck(name string, flag int) error {
	const oCreate, oTrunc, oExcl = 0x40, 0x200, 0x80
	_, exists := vfs[name]
	if !exists && flag&oCreate == 0 {
		return errNotExist
	}
	if exists && flag&oExcl != 0 && flag&oCreate != 0 {
		return errors.New("file exists")
	}
	if !exists || flag&oTrunc != 0 {
		vfs[name] = []byte{}
	}
	return nil
}

func M_os_FileAppend(name string, data []byte) int {
	old := vfs[name]
	cp := make([]byte, 0, len(old)+len(data))
	cp = append(cp, old...)
	cp = append(cp, data...)
	vfs[name] = cp
	return len(data)
}
