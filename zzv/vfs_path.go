package zzv

import (
	"os"
	"strconv"
)

// scratchPath: natively a per-process file in the temp directory; the engine intercepts this
// function and returns a constant name.
func scratchPath(tag string) string {
	return os.TempDir() + "/zzv_" + strconv.Itoa(os.Getpid()) + "_" + tag
}
