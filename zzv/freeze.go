package zzv

import "reflect"

// Freeze remembers the direct contents of the struct p points to (nested structs and arrays
// included; slices, maps, pointers, channels and functions by identity); Unchanged reports whether
// they are still the same. Used to decide that an object shared between workers is only read.
// The engine has its own implementation over its heap (intrinsics.go); this is the native one.
var frozen = map[string]reflect.Value{}

func Freeze(tag string, p any) {
	v := reflect.ValueOf(p).Elem()
	cp := reflect.New(v.Type()).Elem()
	cp.Set(v)
	frozen[tag] = cp
}

func Unchanged(tag string, p any) bool {
	return sameShallow(frozen[tag], reflect.ValueOf(p).Elem())
}

func sameShallow(a, b reflect.Value) bool {
	if a.Kind() != b.Kind() {
		return false
	}
	switch a.Kind() {
	case reflect.Bool:
		return a.Bool() == b.Bool()
	case reflect.Int, reflect.Int8, reflect.Int16, reflect.Int32, reflect.Int64:
		return a.Int() == b.Int()
	case reflect.Uint, reflect.Uint8, reflect.Uint16, reflect.Uint32, reflect.Uint64, reflect.Uintptr:
		return a.Uint() == b.Uint()
	case reflect.Float32, reflect.Float64:
		return a.Float() == b.Float()
	case reflect.String:
		return a.String() == b.String()
	case reflect.Struct:
		for i := 0; i < a.NumField(); i++ {
			if !sameShallow(a.Field(i), b.Field(i)) {
				return false
			}
		}
		return true
	case reflect.Array:
		for i := 0; i < a.Len(); i++ {
			if !sameShallow(a.Index(i), b.Index(i)) {
				return false
			}
		}
		return true
	case reflect.Slice:
		return a.Len() == b.Len() && a.Cap() == b.Cap() && a.Pointer() == b.Pointer()
	case reflect.Map, reflect.Pointer, reflect.Chan, reflect.Func, reflect.UnsafePointer:
		return a.Pointer() == b.Pointer()
	case reflect.Interface:
		if a.IsNil() || b.IsNil() {
			return a.IsNil() && b.IsNil()
		}
		return a.Elem().Type() == b.Elem().Type() && sameShallow(a.Elem(), b.Elem())
	}
	return true
}
