// Package zzv holds the verification intrinsics. The symbolic engine intercepts
// every exported function below by name and never looks at the bodies; the
// bodies are the *native* meaning used when a solver model is replayed against
// the compiled code (values are read from a replay vector).
//
// This file is injected into the build through an overlay as
// github.com/junegunn/fzf/src/zzv; nothing is written into /repo.
package zzv

import (
	"encoding/json"
	"fmt"
	"os"
	"time"
)

type Replay struct {
	Harness string            `json:"harness"`
	Cfg     map[string]int    `json:"cfg"`
	CfgS    map[string]string `json:"cfgs"`
	Vector  []int64           `json:"vector"`
}

var (
	cur      Replay
	pos      int
	Failures []string
	Reached  []string
	Obs      []string
)

type AssumeFailed struct{}

func Load(path string) (*Replay, error) {
	data, err := os.ReadFile(path)
	if err != nil {
		return nil, err
	}
	var r Replay
	if err := json.Unmarshal(data, &r); err != nil {
		return nil, err
	}
	Set(r)
	return &r, nil
}

func Set(r Replay) {
	cur = r
	pos = 0
	Failures, Reached, Obs = nil, nil, nil
}

func next() int64 {
	if pos >= len(cur.Vector) {
		pos++
		return 0
	}
	v := cur.Vector[pos]
	pos++
	return v
}

func Byte() byte     { return byte(next()) }
func Byte7() byte    { return byte(next()) & 0x7f }
func Bool() bool     { return next() != 0 }
func Int() int       { return int(next()) }
func Int16() int16   { return int16(next()) }
func Int32() int32   { return int32(next()) }
func Uint16() uint16 { return uint16(next()) }
func Uint32() uint32 { return uint32(next()) }
func Uint64() uint64 { return uint64(next()) }

// Below returns a value in [0,n).
func Below(n int) int {
	v := int(next())
	if v < 0 || v >= n {
		panic(AssumeFailed{})
	}
	return v
}

// Choose returns a value in [lo,hi]; the engine forks concretely over the range.
func Choose(lo, hi int) int {
	v := int(next())
	if v < lo || v > hi {
		panic(AssumeFailed{})
	}
	return v
}

func Assume(c bool) {
	if !c {
		panic(AssumeFailed{})
	}
}

func Assert(id string, c bool) {
	if !c {
		Failures = append(Failures, id)
	}
}

func Reach(id string) { Reached = append(Reached, id) }

func Observe(id string, v int) { Obs = append(Obs, fmt.Sprintf("%s=%d", id, v)) }

func CfgInt(name string) int {
	v, ok := cur.Cfg[name]
	if !ok {
		panic("zzv: missing config " + name)
	}
	return v
}

func CfgBool(name string) bool { return CfgInt(name) != 0 }

func CfgStr(name string) string {
	v, ok := cur.CfgS[name]
	if !ok {
		panic("zzv: missing config string " + name)
	}
	return v
}

// Symbolic reports whether the harness runs inside the symbolic engine.
func Symbolic() bool { return false }

// ---- helpers written in ordinary Go on top of the intrinsics (executed symbolically as they are) ----

func Bytes(n int) []byte {
	b := make([]byte, n)
	for i := range b {
		b[i] = Byte()
	}
	return b
}

func Bytes7(n int) []byte {
	b := make([]byte, n)
	for i := range b {
		b[i] = Byte7()
	}
	return b
}

type skipper interface {
	Skip(args ...any)
	Fatal(args ...any)
	Logf(format string, args ...any)
}

type runOut struct {
	Idx      int      `json:"idx"`
	Harness  string   `json:"harness"`
	End      string   `json:"end"`
	Failures []string `json:"failures"`
	Reached  []string `json:"reached"`
	Obs      []string `json:"obs"`
}

// ReplayAll runs every entry of the JSON list in $ZZV_REPLAY and writes results to $ZZV_OUT.
func ReplayAll(t skipper, harnesses map[string]func()) {
	path := os.Getenv("ZZV_REPLAY")
	if path == "" {
		t.Skip("no replay file")
	}
	data, err := os.ReadFile(path)
	if err != nil {
		t.Fatal(err)
	}
	var runs []Replay
	if err := json.Unmarshal(data, &runs); err != nil {
		t.Fatal(err)
	}
	out, err := os.Create(os.Getenv("ZZV_OUT"))
	if err != nil {
		t.Fatal(err)
	}
	defer out.Close()
	enc := json.NewEncoder(out)
	for i, r := range runs {
		f := harnesses[r.Harness]
		if f == nil {
			enc.Encode(runOut{Idx: i, Harness: r.Harness, End: "unknown-harness"})
			continue
		}
		Set(r)
		end := RunFunc(f)
		enc.Encode(runOut{Idx: i, Harness: r.Harness, End: end, Failures: Failures, Reached: Reached, Obs: Obs})
	}
}

// RunFunc runs a harness natively under a replay vector and reports how it ended.
func RunFunc(f func()) (end string) {
	defer func() {
		if r := recover(); r != nil {
			if _, ok := r.(AssumeFailed); ok {
				end = "pruned"
				return
			}
			end = fmt.Sprintf("panic: %v", r)
		}
	}()
	f()
	return "done"
}

// RunUntilIdle lets the goroutines started by the harness run until they all block.
// The engine schedules its coroutines deterministically; natively this is a short sleep.
func RunUntilIdle() { time.Sleep(60 * time.Millisecond) }
