package util

import (
	"testing"

	"github.com/junegunn/fzf/src/zzv"
)

func TestZZReplay(t *testing.T) {
	zzv.ReplayAll(t, zzHarnesses)
}
