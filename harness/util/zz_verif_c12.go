package util

import (
	"os"

	"github.com/junegunn/fzf/src/zzv"
)

var zzHarnesses = map[string]func(){
	"zzH_C12_quote": zzH_C12_quote,
}

var zzShellAlphabet = []byte{'\'', '\\', 'a', ' ', '$', '`', '"', '\n', ';', '*'}

// zzShWords: POSIX shell word lexing restricted to what matters here: quote removal for '...',
// "..." and \x, word splitting on unquoted blanks/newlines, unquoted metacharacters flagged.
// fish: inside single quotes \' and \\ are escapes.
func zzShWords(s string, fish bool) (words []string, active bool, open bool) {
	cur := []byte{}
	inWord := false
	i := 0
	for i < len(s) {
		c := s[i]
		switch {
		case c == '\'':
			inWord = true
			i++
			closed := false
			for i < len(s) {
				if fish && s[i] == '\\' && i+1 < len(s) && (s[i+1] == '\'' || s[i+1] == '\\') {
					cur = append(cur, s[i+1])
					i += 2
					continue
				}
				if s[i] == '\'' {
					closed = true
					i++
					break
				}
				cur = append(cur, s[i])
				i++
			}
			if !closed {
				open = true
			}
		case c == '\\':
			inWord = true
			if i+1 < len(s) {
				cur = append(cur, s[i+1])
				i += 2
			} else {
				open = true
				i++
			}
		case c == ' ' || c == '\t' || c == '\n':
			if inWord {
				words = append(words, string(cur))
				cur = []byte{}
				inWord = false
			}
			if c == '\n' {
				active = true // command separator
			}
			i++
		case c == '"' || c == '$' || c == '`' || c == ';' || c == '*' || c == '&' || c == '|' || c == '<' || c == '>' || c == '(' || c == ')' || c == '?' || c == '[' || c == '#' || c == '~':
			active = true
			inWord = true
			cur = append(cur, c)
			i++
		default:
			inWord = true
			cur = append(cur, c)
			i++
		}
	}
	if inWord {
		words = append(words, string(cur))
	}
	return
}

// H12.quote: a quoted entry is read back by the shell as exactly one word equal to the entry,
// with no active metacharacter.
func zzH_C12_quote() {
	os.Setenv("SHELL", zzv.CfgStr("env:SHELL"))
	x := NewExecutor(zzv.CfgStr("withshell"))
	fish := zzv.CfgBool("fish")
	n := zzv.Choose(0, zzv.CfgInt("nmax"))
	b := make([]byte, n)
	for i := range b {
		b[i] = zzShellAlphabet[zzv.Below(len(zzShellAlphabet))]
	}
	entry := string(b)
	q := x.QuoteEntry(entry)
	zzv.Reach("called")
	zzv.Observe("qlen", len(q))
	words, active, open := zzShWords(q, fish)
	zzv.Assert("one-word-equal-to-entry", len(words) == 1 && words[0] == entry)
	zzv.Assert("no-active-metacharacter", !active && !open)
}

// ZZShWords exports the shell word-lexing reference for the harnesses of package fzf.
func ZZShWords(s string, fish bool) ([]string, bool, bool) { return zzShWords(s, fish) }
