package algo

import (
	"github.com/junegunn/fzf/src/util"
	"github.com/junegunn/fzf/src/zzv"
)

func init() {
	zzHarnesses["zzH_C05_slab"] = zzH_C05_slab
	zzHarnesses["zzH_C05_repr"] = zzH_C05_repr
	zzHarnesses["zzH_C05_pos"] = zzH_C05_pos
}

func zzAlgoFn(kind int) Algo {
	switch kind {
	case 5:
		return FuzzyMatchV1
	case 6:
		return FuzzyMatchV2
	}
	return zzExactFn(kind)
}

func zzSameResult(a Result, pa *[]int, b Result, pb *[]int) bool {
	if a != b {
		return false
	}
	if (pa == nil) != (pb == nil) {
		return false
	}
	if pa == nil {
		return true
	}
	if len(*pa) != len(*pb) {
		return false
	}
	same := true
	for i := range *pa {
		if (*pa)[i] != (*pb)[i] {
			same = false
		}
	}
	return same
}

// H5.slab: the result does not depend on what earlier calls left in the scratch slab.
// The same call is made with a freshly zeroed slab and with a slab of the same capacities
// whose contents are arbitrary (every int16/int32 cell an unconstrained symbol).
func zzH_C05_slab() {
	zzInit()
	cs, norm, fwd, withPos := zzv.CfgBool("cs"), zzv.CfgBool("norm"), zzv.CfgBool("fwd"), zzv.CfgBool("pos")
	kind := zzv.CfgInt("kind")
	n := zzv.Choose(zzv.CfgInt("nmin"), zzv.CfgInt("nmax"))
	m := zzv.Choose(zzv.CfgInt("mmin"), zzv.CfgInt("mmax"))
	chars, _ := zzText(n, zzv.CfgInt("rep"))
	pat := zzPattern(m, zzv.CfgInt("pk"), cs, norm)
	c16 := zzv.CfgInt("c16")
	c32 := zzv.CfgInt("c32")
	clean := util.MakeSlab(c16, c32)
	dirty := util.MakeSlab(c16, c32)
	for i := range dirty.I16 {
		dirty.I16[i] = zzv.Int16()
	}
	for i := range dirty.I32 {
		dirty.I32[i] = zzv.Int32()
	}
	chars2 := chars
	r1, p1 := zzAlgoFn(kind)(cs, norm, fwd, &chars, pat, withPos, clean)
	r2, p2 := zzAlgoFn(kind)(cs, norm, fwd, &chars2, pat, withPos, dirty)
	zzv.Reach("called")
	zzObserveResult(r1, p1)
	zzObserveResult(r2, p2)
	zzv.Assert("slab-independent", zzSameResult(r1, p1, r2, p2))
	if zzv.CfgBool("vsnil") && !(kind == 6 && n*m > c16) {
		r3, p3 := zzAlgoFn(kind)(cs, norm, fwd, &chars, pat, withPos, nil)
		zzv.Assert("same-as-no-slab", zzSameResult(r1, p1, r3, p3))
	}
}

// H5.repr: an ASCII line gives the same result whether it is held as bytes or as runes.
func zzH_C05_repr() {
	zzInit()
	cs, norm, fwd, withPos := zzv.CfgBool("cs"), zzv.CfgBool("norm"), zzv.CfgBool("fwd"), zzv.CfgBool("pos")
	kind := zzv.CfgInt("kind")
	n := zzv.Choose(zzv.CfgInt("nmin"), zzv.CfgInt("nmax"))
	m := zzv.Choose(zzv.CfgInt("mmin"), zzv.CfgInt("mmax"))
	b := zzv.Bytes7(n)
	rs := make([]rune, n)
	for i := range b {
		rs[i] = rune(b[i])
	}
	cb := util.ToChars(b)
	cr := util.RunesToChars(rs)
	zzv.Assert("bytes-form", cb.IsBytes() && !cr.IsBytes())
	pat := zzPattern(m, zzv.CfgInt("pk"), cs, norm)
	// optionally with a (small, zeroed) scratch slab, as the matcher workers have one: whether the
	// line is too long for the slab must not depend on how the text is held
	var s1, s2 *util.Slab
	if c16 := zzv.CfgInt("c16"); c16 > 0 {
		s1 = util.MakeSlab(c16, zzv.CfgInt("c32"))
		s2 = util.MakeSlab(c16, zzv.CfgInt("c32"))
	}
	r1, p1 := zzAlgoFn(kind)(cs, norm, fwd, &cb, pat, withPos, s1)
	r2, p2 := zzAlgoFn(kind)(cs, norm, fwd, &cr, pat, withPos, s2)
	zzv.Reach("called")
	zzObserveResult(r1, p1)
	zzObserveResult(r2, p2)
	zzv.Assert("representation-independent", zzSameResult(r1, p1, r2, p2))
}

// H5.pos: asking for positions does not change matched-ness, score, end (and start, except where
// FuzzyMatchV2 documents an approximate start without back-tracing: algo.go "Start offset we
// return here is only relevant when begin tiebreak is used").
func zzH_C05_pos() {
	zzInit()
	cs, norm, fwd := zzv.CfgBool("cs"), zzv.CfgBool("norm"), zzv.CfgBool("fwd")
	kind := zzv.CfgInt("kind")
	n := zzv.Choose(zzv.CfgInt("nmin"), zzv.CfgInt("nmax"))
	m := zzv.Choose(zzv.CfgInt("mmin"), zzv.CfgInt("mmax"))
	chars, text := zzText(n, zzv.CfgInt("rep"))
	pat := zzPattern(m, zzv.CfgInt("pk"), cs, norm)
	chars2 := chars
	r1, p1 := zzAlgoFn(kind)(cs, norm, fwd, &chars, pat, true, nil)
	r2, p2 := zzAlgoFn(kind)(cs, norm, fwd, &chars2, pat, false, nil)
	zzv.Reach("called")
	zzObserveResult(r1, p1)
	zzObserveResult(r2, p2)
	zzv.Assert("no-positions-when-not-asked", p2 == nil || len(*p2) == 0)
	zzv.Assert("same-matchedness", (r1.Start >= 0) == (r2.Start >= 0))
	zzv.Assert("same-score-end", r1.Score == r2.Score && r1.End == r2.End)
	if kind == 6 && m >= 2 {
		if r1.Start >= 0 {
			// documented approximation: the first occurrence of the first query character
			first := -1
			for i := n - 1; i >= 0; i-- {
				if zzFold(text[i], cs, norm) == pat[0] {
					first = i
				}
			}
			zzv.Assert("v2-approx-start", r2.Start == first && r2.Start <= r1.Start)
		}
	} else {
		zzv.Assert("same-start", r1.Start == r2.Start)
	}
}
