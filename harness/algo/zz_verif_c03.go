package algo

import (
	"unicode"

	"github.com/junegunn/fzf/src/zzv"
)

func init() {
	zzHarnesses["zzH_C03_v2"] = zzH_C03_v2
	zzHarnesses["zzH_C03_occ"] = zzH_C03_occ
	zzHarnesses["zzH_C03_closed"] = zzH_C03_closed
}

// ---- the documented scoring model, written independently of algo.go ----

const (
	zzWhite = iota
	zzNonWord
	zzDelim
	zzLower
	zzUpper
	zzLetter
	zzNumber
)

func zzClassOf(r rune, scheme int) int {
	switch {
	case r >= 'a' && r <= 'z':
		return zzLower
	case r >= 'A' && r <= 'Z':
		return zzUpper
	case r >= '0' && r <= '9':
		return zzNumber
	}
	if r < 0x80 {
		switch r {
		case ' ', '\t', '\n', '\v', '\f', '\r':
			return zzWhite
		}
		if scheme == 1 {
			if r == '/' {
				return zzDelim
			}
		} else if r == '/' || r == ',' || r == ':' || r == ';' || r == '|' {
			return zzDelim
		}
		return zzNonWord
	}
	switch {
	case unicode.IsLower(r):
		return zzLower
	case unicode.IsUpper(r):
		return zzUpper
	case unicode.IsNumber(r):
		return zzNumber
	case unicode.IsLetter(r):
		return zzLetter
	case unicode.IsSpace(r):
		return zzWhite
	}
	return zzNonWord
}

func zzBonus(prev, cur int, scheme int) int {
	white, delim := 10, 9
	switch scheme {
	case 1:
		white, delim = 8, 9
	case 2:
		white, delim = 8, 8
	}
	if cur > zzNonWord {
		switch prev {
		case zzWhite:
			return white
		case zzDelim:
			return delim
		case zzNonWord:
			return 8
		}
	}
	if prev == zzLower && cur == zzUpper || prev != zzNumber && cur == zzNumber {
		return 7
	}
	switch cur {
	case zzNonWord, zzDelim:
		return 8
	case zzWhite:
		return white
	}
	return 0
}

func zzInitialClass(scheme int) int {
	if scheme == 1 {
		return zzDelim
	}
	return zzWhite
}

// zzBonuses: per-position bonus of the whole line.
func zzBonuses(text []rune, scheme int) []int {
	b := make([]int, len(text))
	prev := zzInitialClass(scheme)
	for i, r := range text {
		c := zzClassOf(r, scheme)
		b[i] = zzBonus(prev, c, scheme)
		prev = c
	}
	return b
}

func zzMax(a, b int) int {
	if a > b {
		return a
	}
	return b
}

// zzRefDP evaluates the documented recurrence naively over the whole line: explicit M x N
// matrices, no window, no slab, no fast path. A cell (i,j) exists iff pattern[0..i] is a
// subsequence of text[0..j]. Returns (matched, best score).
func zzRefDP(text, pat []rune, cs, norm bool, scheme int) (bool, int) {
	n, m := len(text), len(pat)
	if m == 0 {
		return true, 0
	}
	B := zzBonuses(text, scheme)
	T := make([]rune, n)
	for j := range text {
		T[j] = zzFold(text[j], cs, norm)
	}
	H := make([][]int, m)
	C := make([][]int, m)
	V := make([][]bool, m) // validity
	for i := 0; i < m; i++ {
		H[i] = make([]int, n)
		C[i] = make([]int, n)
		V[i] = make([]bool, n)
	}
	for i := 0; i < m; i++ {
		inGap := false
		for j := 0; j < n; j++ {
			// validity: pattern[0..i] subsequence of text[0..j]
			valid := false
			if j > 0 && V[i][j-1] {
				valid = true
			}
			if T[j] == pat[i] {
				if i == 0 {
					valid = true
				} else if j > 0 && V[i-1][j-1] {
					valid = true
				}
			}
			V[i][j] = valid
			if !valid {
				continue
			}
			left := 0
			if j > 0 && V[i][j-1] {
				left = H[i][j-1]
			}
			s2 := left - 3
			if inGap {
				s2 = left - 1
			}
			s1, cons := 0, 0
			if T[j] == pat[i] && (i == 0 || (j > 0 && V[i-1][j-1])) {
				if i == 0 {
					s1 = 16 + 2*B[j]
					cons = 1
					H[i][j], C[i][j] = s1, cons
					inGap = false
					continue
				}
				diag := H[i-1][j-1]
				s1 = diag + 16
				b := B[j]
				cons = C[i-1][j-1] + 1
				if cons > 1 {
					fb := B[j-cons+1]
					if b >= 8 && b > fb {
						cons = 1
					} else {
						b = zzMax(b, zzMax(4, fb))
					}
				}
				if s1+b < s2 {
					s1 += B[j]
					cons = 0
				} else {
					s1 += b
				}
			}
			C[i][j] = cons
			inGap = s1 < s2
			H[i][j] = zzMax(zzMax(s1, s2), 0)
		}
	}
	matched, best := false, 0
	for j := 0; j < n; j++ {
		if V[m-1][j] {
			matched = true
			if H[m-1][j] > best {
				best = H[m-1][j]
			}
		}
	}
	return matched, best
}

// zzAlignScore scores one alignment (strictly increasing positions) by the documented rules.
// floor: scores never drop below zero while crossing a gap (as in the V2 recurrence).
func zzAlignScore(B []int, pos []int, floor bool) int {
	score, first, cons := 0, 0, 0
	for k, p := range pos {
		b := B[p]
		if k > 0 {
			gap := p - pos[k-1] - 1
			if gap > 0 {
				score -= 3 + (gap - 1)
				if floor && score < 0 {
					score = 0
				}
				cons = 0
			}
		}
		if cons == 0 {
			first = b
		} else {
			if b >= 8 && b > first {
				first = b
			}
			b = zzMax(zzMax(b, first), 4)
		}
		if k == 0 {
			score += 16 + 2*b
		} else {
			score += 16 + b
		}
		cons++
	}
	return score
}

// zzRefBest: maximum zzAlignScore over all alignments that exist in the line (m <= 3).
func zzRefBest(text, pat []rune, cs, norm bool, scheme int) (bool, int) {
	n, m := len(text), len(pat)
	B := zzBonuses(text, scheme)
	ok := make([][]bool, m)
	for k := 0; k < m; k++ {
		ok[k] = make([]bool, n)
		for j := 0; j < n; j++ {
			ok[k][j] = zzFold(text[j], cs, norm) == pat[k]
		}
	}
	found, best := false, 0
	pos := make([]int, m)
	var rec func(k, from int)
	rec = func(k, from int) {
		if k == m {
			s := zzAlignScore(B, pos, true)
			if !found || s > best {
				best = s
			}
			found = true
			return
		}
		for j := from; j < n; j++ {
			if ok[k][j] {
				pos[k] = j
				rec(k+1, j+1)
			}
		}
	}
	rec(0, 0)
	return found, best
}

// H3.v2eq / H3.v2le
func zzH_C03_v2() {
	zzInit()
	scheme := zzv.CfgInt("scheme")
	cs, norm, fwd, withPos := zzv.CfgBool("cs"), zzv.CfgBool("norm"), zzv.CfgBool("fwd"), zzv.CfgBool("pos")
	n := zzv.Choose(zzv.CfgInt("nmin"), zzv.CfgInt("nmax"))
	m := zzv.Choose(zzv.CfgInt("mmin"), zzv.CfgInt("mmax"))
	chars, text := zzText(n, zzv.CfgInt("rep"))
	pat := zzPattern(m, zzv.CfgInt("pk"), cs, norm)
	slab := zzSlab(zzv.CfgInt("slab"))
	res, pos := FuzzyMatchV2(cs, norm, fwd, &chars, pat, withPos, slab)
	zzv.Reach("called")
	zzObserveResult(res, pos)
	okDP, dp := zzRefDP(text, pat, cs, norm, scheme)
	zzv.Assert("matched-iff-dp", (res.Start >= 0) == okDP)
	if res.Start >= 0 {
		zzv.Reach("matched")
		zzv.Assert("score-eq-recurrence", res.Score == dp)
		if zzv.CfgBool("best") {
			okB, best := zzRefBest(text, pat, cs, norm, scheme)
			zzv.Assert("score-le-best-alignment", okB && res.Score <= best)
		}
	}
}

// greedy alignment inside [lo,hi)
func zzGreedy(text, pat []rune, lo, hi int, cs, norm bool) []int {
	pos := make([]int, 0, len(pat))
	k := 0
	for j := lo; j < hi && k < len(pat); j++ {
		if zzFold(text[j], cs, norm) == pat[k] {
			pos = append(pos, j)
			k++
		}
	}
	return pos
}

// zzOccScore: the score calculateScore is documented to give to an occurrence [lo,hi):
// same rules, no floor, gaps counted from lo.
func zzOccScore(text, pat []rune, lo, hi int, cs, norm bool, scheme int) int {
	B := zzBonuses(text, scheme)
	score, first, cons, k, inGap := 0, 0, 0, 0, false
	for j := lo; j < hi; j++ {
		if k < len(pat) && zzFold(text[j], cs, norm) == pat[k] {
			b := B[j]
			if cons == 0 {
				first = b
			} else {
				if b >= 8 && b > first {
					first = b
				}
				b = zzMax(zzMax(b, first), 4)
			}
			if k == 0 {
				score += 16 + 2*b
			} else {
				score += 16 + b
			}
			inGap = false
			cons++
			k++
		} else {
			if inGap {
				score--
			} else {
				score -= 3
			}
			inGap = true
			cons = 0
		}
	}
	return score
}

// H3.occ: V1, exact, prefix, suffix are scored as the occurrence they report.
func zzH_C03_occ() {
	zzInit()
	scheme := zzv.CfgInt("scheme")
	cs, norm, fwd := zzv.CfgBool("cs"), zzv.CfgBool("norm"), zzv.CfgBool("fwd")
	kind := zzv.CfgInt("kind") // 0 exact, 2 prefix, 3 suffix, 5 v1
	n := zzv.Choose(zzv.CfgInt("nmin"), zzv.CfgInt("nmax"))
	m := zzv.Choose(zzv.CfgInt("mmin"), zzv.CfgInt("mmax"))
	chars, text := zzText(n, zzv.CfgInt("rep"))
	pat := zzPattern(m, zzv.CfgInt("pk"), cs, norm)
	var res Result
	var pos *[]int
	if kind == 5 {
		res, pos = FuzzyMatchV1(cs, norm, fwd, &chars, pat, zzv.CfgBool("pos"), nil)
	} else {
		res, pos = zzExactFn(kind)(cs, norm, fwd, &chars, pat, false, nil)
	}
	zzv.Reach("called")
	zzObserveResult(res, pos)
	if res.Start >= 0 {
		zzv.Reach("matched")
		zzv.Assume(res.Start <= res.End && res.End <= n) // C02's subject
		zzv.Assert("score-of-occurrence", res.Score == zzOccScore(text, pat, res.Start, res.End, cs, norm, scheme))
	}
}

// H3.boundary / H3.equal: the two closed-form scores.
func zzH_C03_closed() {
	zzInit()
	scheme := zzv.CfgInt("scheme")
	cs, norm, fwd := zzv.CfgBool("cs"), zzv.CfgBool("norm"), zzv.CfgBool("fwd")
	kind := zzv.CfgInt("kind") // 1 boundary, 4 equal
	n := zzv.Choose(zzv.CfgInt("nmin"), zzv.CfgInt("nmax"))
	m := zzv.Choose(zzv.CfgInt("mmin"), zzv.CfgInt("mmax"))
	chars, text := zzText(n, zzv.CfgInt("rep"))
	pat := zzPattern(m, zzv.CfgInt("pk"), cs, norm)
	res, pos := zzExactFn(kind)(cs, norm, fwd, &chars, pat, false, nil)
	zzv.Reach("called")
	zzObserveResult(res, pos)
	white := 10
	if scheme != 0 {
		white = 8
	}
	if res.Start >= 0 {
		zzv.Reach("matched")
		zzv.Assume(res.Start <= res.End && res.End <= n)
		if kind == 4 {
			zzv.Assert("equal-score", res.Score == (16+white)*m+white)
		} else {
			// bonus of the first character of the occurrence; underscore neighbours rank lower
			// "beginning of the string" counts as a boundary after white space (algo.go, bonusBoundaryWhite)
			B := zzBonuses(text, scheme)
			b := B[res.Start]
			if res.Start == 0 {
				b = white
			}
			score := b
			deduct := b - 8 + 1
			if res.Start > 0 && text[res.Start-1] == '_' {
				score -= deduct + 1
				deduct = 1
			}
			if res.End < n && text[res.End] == '_' {
				score -= deduct
			}
			score += 16*m + white*(m+1)
			zzv.Assert("boundary-score", res.Score == score)
		}
	}
}
