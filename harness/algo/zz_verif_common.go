package algo

// Verification harnesses for package algo (injected by overlay; never written into /repo).

import (
	"unicode"

	"github.com/junegunn/fzf/src/util"
	"github.com/junegunn/fzf/src/zzv"
)

var zzHarnesses = map[string]func(){}

// zzFold is the documented folding of a text character: lower-case unless
// case-sensitive, then Latin normalisation unless --literal.
func zzFold(r rune, cs, norm bool) rune {
	if !cs {
		r = unicode.ToLower(r)
	}
	if norm {
		r = normalizeRune(r)
	}
	return r
}

// zzText builds the text under test. rep 0: ASCII bytes (bytes representation),
// rep 1: the same ASCII characters held as runes, rep 2: runes from the alphabet zzSigma,
// rep 3: bytes from zzTiny.
func zzText(n int, rep int) (util.Chars, []rune) {
	switch rep {
	case 3:
		b := make([]byte, n)
		rs := make([]rune, n)
		for i := range b {
			rs[i] = zzTiny[zzv.Below(len(zzTiny))]
			b[i] = byte(rs[i])
		}
		return util.ToChars(b), rs
	case 0:
		b := zzv.Bytes7(n)
		rs := make([]rune, n)
		for i := range b {
			rs[i] = rune(b[i])
		}
		return util.ToChars(b), rs
	case 1:
		rs := make([]rune, n)
		for i := range rs {
			rs[i] = rune(zzv.Byte7())
		}
		cp := make([]rune, n)
		copy(cp, rs)
		return util.RunesToChars(cp), rs
	}
	rs := make([]rune, n)
	for i := range rs {
		rs[i] = zzSigma[zzv.Below(len(zzSigma))]
	}
	cp := make([]rune, n)
	copy(cp, rs)
	return util.RunesToChars(cp), rs
}

// every class the code distinguishes: lower, upper, digit, word separator, delimiter, white,
// normalisable lower/upper, title case, lower that normalises to upper ASCII, other letter,
// non-ASCII space, non-ASCII number, non-ASCII non-word, dotted capital I, sharp s.
var zzSigma = []rune{'a', 'A', 'b', '1', '_', '/', ' ', 'é', 'É', 'ǅ', 'ǆ', 'ᴋ', '한', ' ', '²', '·', 'İ', 'ß', 'k', 'K'}

// small alphabets for deeper bounds: a letter in both cases, a second letter, a separator
var zzTiny = []rune{'a', 'b', 'A', '-'}

// zzPattern builds a pattern satisfying the documented Algo preconditions.
// pk 0: symbolic ASCII; pk 1: from zzSigma; pk 2: from zzTiny.
func zzPattern(m int, pk int, cs, norm bool) []rune {
	p := make([]rune, m)
	for i := range p {
		var r rune
		switch pk {
		case 0:
			r = rune(zzv.Byte7())
		case 1:
			r = zzSigma[zzv.Below(len(zzSigma))]
		default:
			r = zzTiny[zzv.Below(len(zzTiny))]
		}
		// precondition 1: lower-case if case-insensitive; 2: normalised if normalize
		if !cs {
			zzv.Assume(unicode.ToLower(r) == r)
		}
		if norm {
			zzv.Assume(normalizeRune(r) == r)
		}
		p[i] = r
	}
	return p
}

func zzSlab(mode int) *util.Slab {
	if mode == 0 {
		return nil
	}
	// slab of the configured capacities with arbitrary stale contents
	s := util.MakeSlab(zzv.CfgInt("c16"), zzv.CfgInt("c32"))
	for i := range s.I16 {
		s.I16[i] = zzv.Int16()
	}
	for i := range s.I32 {
		s.I32[i] = zzv.Int32()
	}
	return s
}

// zzSubseq: is pat a subsequence of fold(text[lo:hi])?
func zzSubseq(text []rune, pat []rune, lo, hi int, cs, norm bool) bool {
	j := 0
	for i := 0; i < len(text); i++ {
		if i >= lo && i < hi && j < len(pat) && zzFold(text[i], cs, norm) == pat[j] {
			j++
		}
	}
	return j == len(pat)
}

// zzOccursAt: does pat occur contiguously at text[at:]?
func zzOccursAt(text []rune, pat []rune, at int, cs, norm bool) bool {
	if at < 0 || at+len(pat) > len(text) {
		return false
	}
	ok := true
	for k := 0; k < len(pat); k++ {
		if zzFold(text[at+k], cs, norm) != pat[k] {
			ok = false
		}
	}
	return ok
}

func zzInit() {
	// Init is not idempotent across schemes; start from the package's pristine values so that
	// consecutive native replays in one process behave like fresh processes.
	delimiterChars = "/,:;|"
	initialCharClass = charWhite
	scheme := "default"
	switch zzv.CfgInt("scheme") {
	case 1:
		scheme = "path"
	case 2:
		scheme = "history"
	}
	Init(scheme)
}

// zzAt reads text[p] for a possibly out-of-range p without branching on p (0 when out of range).
func zzAt(text []rune, p int) rune {
	var r rune
	for i := range text {
		if i == p {
			r = text[i]
		}
	}
	return r
}

// zzCheckPositions: positions (in either order) are M distinct, strictly monotone indices inside
// [start,end) each holding the corresponding pattern character.
func zzCheckPositions(text []rune, pat []rune, pos []int, start, end int, cs, norm bool) bool {
	m := len(pat)
	if len(pos) != m {
		return false
	}
	asc, desc := true, true
	for k := 0; k+1 < m; k++ {
		if !(pos[k] < pos[k+1]) {
			asc = false
		}
		if !(pos[k] > pos[k+1]) {
			desc = false
		}
	}
	ok := asc || desc
	for k := 0; k < m; k++ {
		p := pos[k]
		if !asc {
			p = pos[m-1-k]
		}
		if p < start || p >= end || p < 0 || p >= len(text) {
			ok = false
		}
		if zzFold(zzAt(text, p), cs, norm) != pat[k] {
			ok = false
		}
	}
	return ok
}

func zzObserveResult(res Result, pos *[]int) {
	zzv.Observe("start", res.Start)
	zzv.Observe("end", res.End)
	zzv.Observe("score", res.Score)
	if pos != nil {
		zzv.Observe("npos", len(*pos))
		for _, p := range *pos {
			zzv.Observe("pos", p)
		}
	} else {
		zzv.Observe("npos", -1)
	}
}
