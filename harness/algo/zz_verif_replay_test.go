package algo

import (
	"os"
	"testing"

	"github.com/junegunn/fzf/src/zzv"
)

// TestZZReplay runs one harness natively under the replay vector in $ZZV_REPLAY.
func TestZZReplay(t *testing.T) {
	path := os.Getenv("ZZV_REPLAY")
	if path == "" {
		t.Skip("no replay")
	}
	r, err := zzv.Load(path)
	if err != nil {
		t.Fatal(err)
	}
	f := zzHarnesses[r.Harness]
	if f == nil {
		t.Fatalf("unknown harness %s", r.Harness)
	}
	end := zzv.RunFunc(f)
	t.Logf("ZZEND %s", end)
	for _, o := range zzv.Obs {
		t.Logf("ZZOBS %s", o)
	}
	for _, f := range zzv.Failures {
		t.Logf("ZZFAIL %s", f)
	}
	if end != "done" && end != "pruned" {
		t.Logf("ZZFAIL panic")
	}
}
