package algo

import (
	"testing"

	"github.com/junegunn/fzf/src/zzv"
)

// TestZZReplay runs harnesses natively under the replay vectors listed in $ZZV_REPLAY
// and writes one JSON line per run to $ZZV_OUT.
func TestZZReplay(t *testing.T) {
	zzv.ReplayAll(t, zzHarnesses)
}
