package algo

import (
	"unicode"

	"github.com/junegunn/fzf/src/zzv"
)

func init() {
	zzHarnesses["zzH_C02_fuzzy"] = zzH_C02_fuzzy
}

// H2.sound / H2.complete / H2.nocrash for FuzzyMatchV1 / FuzzyMatchV2.
func zzH_C02_fuzzy() {
	zzInit()
	cs, norm, fwd, withPos := zzv.CfgBool("cs"), zzv.CfgBool("norm"), zzv.CfgBool("fwd"), zzv.CfgBool("pos")
	algo := zzv.CfgInt("algo")
	n := zzv.Choose(zzv.CfgInt("nmin"), zzv.CfgInt("nmax"))
	m := zzv.Choose(zzv.CfgInt("mmin"), zzv.CfgInt("mmax"))
	chars, text := zzText(n, zzv.CfgInt("rep"))
	pat := zzPattern(m, zzv.CfgInt("pk"), cs, norm)
	slab := zzSlab(zzv.CfgInt("slab"))
	var res Result
	var pos *[]int
	if algo == 1 {
		res, pos = FuzzyMatchV1(cs, norm, fwd, &chars, pat, withPos, slab)
	} else {
		res, pos = FuzzyMatchV2(cs, norm, fwd, &chars, pat, withPos, slab)
	}
	zzv.Reach("called")
	zzObserveResult(res, pos)
	if res.Start >= 0 {
		zzv.Reach("matched")
		zzv.Assert("range", 0 <= res.Start && res.Start <= res.End && res.End <= n)
		if pos != nil {
			zzv.Assert("positions", zzCheckPositions(text, pat, *pos, res.Start, res.End, cs, norm))
		}
		zzv.Assert("witness-in-range", zzSubseq(text, pat, res.Start, res.End, cs, norm))
	} else {
		zzv.Reach("nomatch")
		zzv.Assert("complete", !zzSubseq(text, pat, 0, n, cs, norm))
		zzv.Assert("nomatch-shape", res.Start == -1 && res.End == -1 && res.Score == 0 && pos == nil)
	}
}

func init() {
	zzHarnesses["zzH_C02_exact"] = zzH_C02_exact
}

func zzIsBoundaryClass(r rune) bool { return charClassOf(r) <= charDelimiter }

func zzLeadingSpaces(text []rune) int {
	n := 0
	for n < len(text) && unicode.IsSpace(text[n]) {
		n++
	}
	return n
}

func zzTrailingSpaces(text []rune) int {
	n := 0
	for n < len(text) && unicode.IsSpace(text[len(text)-1-n]) {
		n++
	}
	return n
}

// zzAnchorOK: does an occurrence at `at` satisfy the anchor of this term kind?
// kind 0 exact, 1 boundary, 2 prefix, 3 suffix, 4 equal.
func zzAnchorOK(kind int, text, pat []rune, at int) bool {
	n, m := len(text), len(pat)
	switch kind {
	case 0:
		return true
	case 1:
		left := at == 0 || zzIsBoundaryClass(text[at-1])
		right := at+m == n || zzIsBoundaryClass(text[at+m])
		return left && right
	case 2:
		lead := 0
		if !unicode.IsSpace(pat[0]) {
			lead = zzLeadingSpaces(text)
		}
		return at == lead
	case 3:
		trail := 0
		if !unicode.IsSpace(pat[m-1]) {
			trail = zzTrailingSpaces(text)
		}
		return at+m == n-trail
	}
	lead, trail := 0, 0
	if !unicode.IsSpace(pat[0]) {
		lead = zzLeadingSpaces(text)
	}
	if !unicode.IsSpace(pat[m-1]) {
		trail = zzTrailingSpaces(text)
	}
	return at == lead && at+m == n-trail
}

func zzExactFn(kind int) Algo {
	switch kind {
	case 0:
		return ExactMatchNaive
	case 1:
		return ExactMatchBoundary
	case 2:
		return PrefixMatch
	case 3:
		return SuffixMatch
	}
	return EqualMatch
}

// H2 for the exact family: the range is a contiguous occurrence satisfying the anchor;
// no match means no such occurrence exists anywhere.
func zzH_C02_exact() {
	zzInit()
	cs, norm, fwd, withPos := zzv.CfgBool("cs"), zzv.CfgBool("norm"), zzv.CfgBool("fwd"), zzv.CfgBool("pos")
	kind := zzv.CfgInt("kind")
	n := zzv.Choose(zzv.CfgInt("nmin"), zzv.CfgInt("nmax"))
	m := zzv.Choose(zzv.CfgInt("mmin"), zzv.CfgInt("mmax"))
	chars, text := zzText(n, zzv.CfgInt("rep"))
	pat := zzPattern(m, zzv.CfgInt("pk"), cs, norm)
	slab := zzSlab(zzv.CfgInt("slab"))
	res, pos := zzExactFn(kind)(cs, norm, fwd, &chars, pat, withPos, slab)
	zzv.Reach("called")
	zzObserveResult(res, pos)
	zzv.Assert("no-positions", pos == nil)
	if res.Start >= 0 {
		zzv.Reach("matched")
		zzv.Assert("range", 0 <= res.Start && res.End == res.Start+m && res.End <= n)
		zzv.Assert("occurrence", zzOccursAt(text, pat, res.Start, cs, norm))
		zzv.Assert("anchor", zzAnchorOK(kind, text, pat, res.Start))
	} else {
		zzv.Reach("nomatch")
		any := false
		for at := 0; at+m <= n; at++ {
			if zzOccursAt(text, pat, at, cs, norm) && zzAnchorOK(kind, text, pat, at) {
				any = true
			}
		}
		zzv.Assert("complete", !any)
		zzv.Assert("nomatch-shape", res.Start == -1 && res.End == -1 && res.Score == 0)
	}
}

// ZZTermMatches is the documented meaning of one search term on a line (kinds: 0 exact substring,
// 1 substring at word boundaries, 2 prefix, 3 suffix, 4 equal, 5 fuzzy subsequence); exported for
// the query-level harnesses of package fzf. pat must satisfy the Algo preconditions.
func ZZTermMatches(kind int, text []rune, pat []rune, cs, norm bool) bool {
	n, m := len(text), len(pat)
	if kind == 5 {
		return zzSubseq(text, pat, 0, n, cs, norm)
	}
	any := false
	for at := 0; at+m <= n; at++ {
		if zzOccursAt(text, pat, at, cs, norm) && zzAnchorOK(kind, text, pat, at) {
			any = true
		}
	}
	return any
}
