package algo

import "github.com/junegunn/fzf/src/zzv"

func init() {
	zzHarnesses["zzH_C02_fuzzy"] = zzH_C02_fuzzy
}

// H2.sound / H2.complete / H2.nocrash for FuzzyMatchV1 / FuzzyMatchV2.
func zzH_C02_fuzzy() {
	zzInit()
	cs, norm, fwd, withPos := zzv.CfgBool("cs"), zzv.CfgBool("norm"), zzv.CfgBool("fwd"), zzv.CfgBool("pos")
	algo := zzv.CfgInt("algo")
	n := zzv.Choose(zzv.CfgInt("nmin"), zzv.CfgInt("nmax"))
	m := zzv.Choose(zzv.CfgInt("mmin"), zzv.CfgInt("mmax"))
	chars, text := zzText(n, zzv.CfgInt("rep"))
	pat := zzPattern(m, zzv.CfgInt("pk"), cs, norm)
	slab := zzSlab(zzv.CfgInt("slab"))
	var res Result
	var pos *[]int
	if algo == 1 {
		res, pos = FuzzyMatchV1(cs, norm, fwd, &chars, pat, withPos, slab)
	} else {
		res, pos = FuzzyMatchV2(cs, norm, fwd, &chars, pat, withPos, slab)
	}
	zzv.Reach("called")
	zzObserveResult(res, pos)
	if res.Start >= 0 {
		zzv.Reach("matched")
		zzv.Assert("range", 0 <= res.Start && res.Start <= res.End && res.End <= n)
		if pos != nil {
			zzv.Assert("positions", zzCheckPositions(text, pat, *pos, res.Start, res.End, cs, norm))
		}
		zzv.Assert("witness-in-range", zzSubseq(text, pat, res.Start, res.End, cs, norm))
	} else {
		zzv.Reach("nomatch")
		zzv.Assert("complete", !zzSubseq(text, pat, 0, n, cs, norm))
		zzv.Assert("nomatch-shape", res.Start == -1 && res.End == -1 && res.Score == 0 && pos == nil)
	}
}
