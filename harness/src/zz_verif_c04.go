package fzf

import (
	"github.com/junegunn/fzf/src/util"
	"github.com/junegunn/fzf/src/zzv"
)

func init() {
	zzHarnesses["zzH_C04_cmp"] = zzH_C04_cmp
	zzHarnesses["zzH_C04_merge"] = zzH_C04_merge
	zzHarnesses["zzH_C04_pass"] = zzH_C04_pass
	zzHarnesses["zzH_C04_slice"] = zzH_C04_slice
}

func zzSymResult(small bool) Result {
	it := &Item{}
	if small {
		it.text.Index = int32(zzv.Below(4))
		return Result{item: it, points: [4]uint16{0, 0, uint16(zzv.Below(2)), uint16(zzv.Below(3))}}
	}
	it.text.Index = zzv.Int32()
	return Result{item: it, points: [4]uint16{zzv.Uint16(), zzv.Uint16(), zzv.Uint16(), zzv.Uint16()}}
}

// zzRefLess: rank order = lexicographic on (points[3], points[2], points[1], points[0]) - the sort
// criteria in the order given - then input position (reversed under --tac).
func zzRefLess(a, b Result, tac bool) bool {
	for idx := 3; idx >= 0; idx-- {
		if a.points[idx] < b.points[idx] {
			return true
		}
		if a.points[idx] > b.points[idx] {
			return false
		}
	}
	return (a.item.Index() <= b.item.Index()) != tac
}

// H4.cmp: compareRanks (the build's variant and the portable loop) is the documented rank order.
func zzH_C04_cmp() {
	tac := zzv.CfgBool("tac")
	a, b, c := zzSymResult(false), zzSymResult(false), zzSymResult(false)
	ab := compareRanks(a, b, tac)
	zzv.Reach("called")
	zzv.Assert("is-lexicographic-rank-order", ab == zzRefLess(a, b, tac))
	zzv.Assert("portable-variant-agrees", zzCompareRanksPortable(a, b, tac) == ab)
	ba := compareRanks(b, a, tac)
	// distinct lines have distinct positions: exactly one of them ranks first
	if a.item.Index() != b.item.Index() {
		zzv.Assert("total-and-antisymmetric", ab != ba)
	}
	if ab && compareRanks(b, c, tac) {
		zzv.Assert("transitive", compareRanks(a, c, tac))
	}
}

// H4.merge: the lazily merged list equals the stable global order, whatever index is probed first.
func zzH_C04_merge() {
	sorted, tac := zzv.CfgBool("sorted"), zzv.CfgBool("tac")
	nl := zzv.Choose(1, zzv.CfgInt("lists"))
	lists := make([][]Result, nl)
	total := 0
	all := []Result{}
	for l := range lists {
		k := zzv.Choose(0, zzv.CfgInt("perlist"))
		lists[l] = make([]Result, k)
		for i := range lists[l] {
			lists[l][i] = zzSymResult(true)
			if sorted && i > 0 {
				// each partition's list is sorted by the comparator the matcher uses
				zzv.Assume(compareRanks(lists[l][i-1], lists[l][i], tac))
			}
		}
		total += k
		all = append(all, lists[l]...)
	}
	mg := NewMerger(nil, lists, sorted, tac, revision{}, 0)
	zzv.Reach("called")
	zzv.Assert("length", mg.Length() == total)
	if total == 0 {
		return
	}
	// reference: for sorted mergers the rank order (ties between lists: earlier list first);
	// unsorted: concatenation, reversed under tac
	ref := make([]Result, len(all))
	copy(ref, all)
	if sorted {
		for i := 1; i < len(ref); i++ {
			for j := i; j > 0; j-- {
				// strict "less": b before a only if a is not <= b
				if !compareRanks(ref[j-1], ref[j], tac) {
					ref[j-1], ref[j] = ref[j], ref[j-1]
				}
			}
		}
	} else if tac {
		for i, j := 0, len(ref)-1; i < j; i, j = i+1, j-1 {
			ref[i], ref[j] = ref[j], ref[i]
		}
	}
	// arbitrary probe order: two symbolic probes, then a full sweep
	p1, p2 := zzv.Below(total), zzv.Below(total)
	g1 := mg.Get(p1)
	g2 := mg.Get(p2)
	ok := true
	for i := range ref {
		if i == p1 && !zzSameRank(g1, ref[i]) {
			ok = false
		}
		if i == p2 && !zzSameRank(g2, ref[i]) {
			ok = false
		}
	}
	zzv.Assert("random-probe-equals-global-order", ok)
	sweep := true
	for i := range ref {
		if !zzSameRank(mg.Get(i), ref[i]) {
			sweep = false
		}
	}
	zzv.Assert("sweep-equals-global-order", sweep)
}

func zzSameRank(a, b Result) bool {
	return a.points == b.points && a.item.Index() == b.item.Index()
}

// H4.pass: PassMerger over chunks (chunkSize scaled to 3, first chunk possibly partial because of --tail).
func zzH_C04_pass() {
	tac := zzv.CfgBool("tac")
	nc := zzv.Choose(1, zzv.CfgInt("chunks"))
	chunks := make([]*Chunk, nc)
	next := int32(zzv.Below(3)) // ordinals keep counting from the start of the stream
	first := next
	total := 0
	for c := range chunks {
		ch := &Chunk{}
		cnt := chunkSize
		if c == 0 || c == nc-1 {
			cnt = zzv.Choose(1, chunkSize)
		}
		for i := 0; i < cnt; i++ {
			ch.items[i].text = util.ToChars([]byte{'x'})
			ch.items[i].text.Index = next
			next++
		}
		ch.count = cnt
		total += cnt
		chunks[c] = ch
	}
	mg := PassMerger(&chunks, tac, revision{})
	zzv.Reach("called")
	zzv.Assert("length", mg.Length() == total && CountItems(chunks) == total)
	i := zzv.Below(total)
	r := mg.Get(i)
	want := first + int32(i)
	if tac {
		want = first + int32(total-1-i)
	}
	zzv.Assert("get-is-input-order", r.item.Index() == want)
	zzv.Assert("find-index-inverse", mg.FindIndex(want) == i)
}

// H4.slice: worker partitions are contiguous, in order, non-empty and cover every chunk.
func zzH_C04_slice() {
	n := zzv.Choose(1, zzv.CfgInt("chunks"))
	parts := zzv.Choose(1, zzv.CfgInt("parts"))
	chunks := make([]*Chunk, n)
	for i := range chunks {
		chunks[i] = &Chunk{count: i}
	}
	m := &Matcher{partitions: parts}
	slices := m.sliceChunks(chunks)
	zzv.Reach("called")
	k := 0
	ok := len(slices) >= 1 && len(slices) <= parts
	for _, s := range slices {
		if len(s) == 0 {
			ok = false
		}
		for _, c := range s {
			if k >= n || c != chunks[k] {
				ok = false
			}
			k++
		}
	}
	zzv.Assert("partitions-cover-in-order", ok && k == n)
}

func init() {
	zzHarnesses["zzH_C04_key"] = zzH_C04_key
}

var zzKeyAlphabet = []byte{'a', ' ', '/', '\\', 'b'}

// H4.key: buildResult puts criterion k of the tiebreak list into points[3-k] (unused slots 0) with
// the documented meaning: score (higher first), length (trimmed), chunk (smallest white-space
// delimited span covering the matches), pathname (distance of the first match from the last path
// separator), begin / end (position of the match relative to the trimmed line).
func zzH_C04_key() {
	n := zzv.Choose(1, zzv.CfgInt("nmax"))
	line := make([]byte, n)
	for i := range line {
		line[i] = zzKeyAlphabet[zzv.Below(len(zzKeyAlphabet))]
	}
	crit := criterion(zzv.CfgInt("criterion"))
	slot := zzv.Choose(0, 2)
	cs := []criterion{byScore}
	for len(cs) < slot {
		cs = append(cs, byLength)
	}
	if slot == 0 {
		cs = []criterion{crit}
	} else {
		cs = append(cs, crit)
	}
	sortCriteria = cs
	item := &Item{text: util.ToChars(append([]byte{}, line...))}
	no := zzv.Choose(0, 2)
	offsets := make([]Offset, no)
	for i := range offsets {
		b := zzv.Below(n + 1)
		e := zzv.Below(n + 1)
		offsets[i] = Offset{int32(b), int32(e)}
	}
	keep := append([]Offset{}, offsets...)
	score := zzv.Below(8) * 9000 // 0 .. 63000, plus out-of-range values below
	if zzv.Bool() {
		score = 70000
	}
	res := buildResult(item, offsets, score)
	zzv.Reach("called")
	zzv.Observe("key", int(res.points[3-slot]))
	// unused slots stay zero
	unused := true
	for k := len(cs); k < 4; k++ {
		if res.points[3-k] != 0 {
			unused = false
		}
	}
	zzv.Assert("unused-slots-zero", unused)
	key := int(res.points[3-slot])
	isSpace := func(c byte) bool { return c == ' ' }
	// aggregate of the non-empty matched ranges
	valid := false
	minB, minE, maxE := 0, 0, 0
	for _, o := range keep {
		b, e := int(o[0]), int(o[1])
		if b < e {
			if !valid || b < minB {
				minB = b
			}
			if !valid || e < minE {
				minE = e
			}
			if !valid || e > maxE {
				maxE = e
			}
			valid = true
		}
	}
	lead, trail := 0, 0
	for lead < n && isSpace(line[lead]) {
		lead++
	}
	for trail < n-lead && isSpace(line[n-1-trail]) {
		trail++
	}
	trimLen := n - lead - trail
	switch crit {
	case byScore:
		want := 65535 - score
		if score > 65535 {
			want = 0
		}
		zzv.Assert("score-key", key == want)
	case byLength:
		zzv.Assert("length-key-is-trimmed-length", key == trimLen)
	case byChunk:
		if !valid {
			zzv.Assert("no-match-range-ranks-last", key == 65535)
		} else {
			b, e := minB, maxE
			for b > 0 && !isSpace(line[b-1]) {
				b--
			}
			for e < n && !isSpace(line[e]) {
				e++
			}
			zzv.Assert("chunk-key-is-covering-span", key == e-b)
		}
	case byPathname:
		if !valid {
			zzv.Assert("no-match-range-ranks-last", key == 65535)
		} else {
			last := -1
			for i := 0; i < n; i++ {
				if line[i] == '/' || line[i] == '\\' {
					last = i
				}
			}
			if last <= minB {
				zzv.Assert("pathname-key-is-distance-from-last-separator", key == minB-last)
			} else {
				zzv.Assert("match-before-file-name-ranks-last", key == 65535)
			}
		}
	case byBegin:
		if !valid {
			zzv.Assert("no-match-range-ranks-last", key == 65535)
		} else if minB >= lead {
			zzv.Assert("begin-key-is-end-of-first-match-from-trimmed-start", key == minE-lead)
		}
	case byEnd:
		if !valid {
			zzv.Assert("no-match-range-ranks-last", key == 65535)
		} else if minB >= lead {
			want := 65535 - 65535*(maxE-lead)/(trimLen+1)
			if want < 0 {
				want = 0 // a match reaching into the trailing blanks
			}
			zzv.Assert("end-key-formula", key == want)
		}
	}
}

func init() {
	zzHarnesses["zzH_C04_jump"] = zzH_C04_jump
}

// H4.jump: a long result list (well past anything a screen shows) probed far ahead of what has
// been merged so far - last entry first, or one screenful and then a jump to the end: the entry at
// every probed position is the one the global order puts there, whatever was read before. Ranks are
// concrete with many ties (two score levels), the probe pattern and --tac are the variables.
func zzH_C04_jump() {
	tac := zzv.CfgBool("tac")
	total := zzv.CfgInt("total")
	nl := 3
	lists := make([][]Result, nl)
	all := make([]Result, 0, total)
	for i := 0; i < total; i++ {
		it := &Item{}
		it.text.Index = int32(i)
		r := Result{item: it}
		r.points[3] = uint16(1 + i%2) // two score levels: ties everywhere
		all = append(all, r)
	}
	// partitions: contiguous thirds, each in the order the matcher's own comparator gives
	// (built directly: lower score level first, ties by position, reversed under --tac)
	order := func(from, to int) []Result {
		out := make([]Result, 0, to-from)
		for _, lvl := range []uint16{1, 2} {
			if tac {
				for i := to - 1; i >= from; i-- {
					if all[i].points[3] == lvl {
						out = append(out, all[i])
					}
				}
			} else {
				for i := from; i < to; i++ {
					if all[i].points[3] == lvl {
						out = append(out, all[i])
					}
				}
			}
		}
		return out
	}
	for l := 0; l < nl; l++ {
		part := order(l*total/nl, (l+1)*total/nl)
		for i := 1; i < len(part); i++ {
			zzv.Assume(compareRanks(part[i-1], part[i], tac))
		}
		lists[l] = part
	}
	ref := order(0, total)
	mg := NewMerger(nil, lists, true, tac, revision{}, 0)
	zzv.Reach("called")
	var probes []int
	switch zzv.Choose(0, 2) {
	case 0:
		probes = []int{total - 1, 0, total / 2}
	case 1:
		probes = []int{0, 1, 2, 40, total - 1, 41, total - 2}
	default:
		probes = []int{total / 2, total/2 - 1, total - 1, 0}
	}
	ok := true
	for _, p := range probes {
		if !zzSameRank(mg.Get(p), ref[p]) {
			ok = false
		}
	}
	zzv.Assert("far-probe-equals-global-order", ok)
}
