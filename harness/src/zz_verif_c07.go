package fzf

import (
	"unicode/utf8"
	"github.com/junegunn/fzf/src/algo"
	"github.com/junegunn/fzf/src/tui"
	"github.com/junegunn/fzf/src/util"
	"github.com/junegunn/fzf/src/zzv"
)

func init() {
	zzHarnesses["zzH_C07_stream"] = zzH_C07_stream
	zzHarnesses["zzH_C06_build"] = zzH_C06_build
}

var zzRecAlphabet = []byte{'a', 'b', ' ', '\t'}

func zzRecord(n int) []byte {
	b := make([]byte, n)
	for i := range b {
		b[i] = zzRecAlphabet[zzv.Below(len(zzRecAlphabet))]
	}
	return b
}

// zzBuilders returns the item builder of Run (lifted from the current source): plain, or the
// --with-nth one with a transformer that keeps one field (configuration "field").
func zzBuilders(withNth bool, headerLines int, opts *Options, eventBox *util.EventBox) (ItemBuilder, *zzEnv_plainBuilder, *zzEnv_nthBuilder) {
	plainAnsi := func(data []byte) (util.Chars, *[]ansiOffset) { return util.ToChars(data), nil }
	opts.HeaderLines = headerLines
	// free variables are set by name (see zzSet in the generated file): if the closure's environment
	// changes shape the harness steps aside (and the check turns inconclusive) instead of not compiling
	if !withNth {
		env := &zzEnv_plainBuilder{}
		if !(env.zzSet("header", make([]string, 0, headerLines)) && env.zzSet("opts", opts) && env.zzSet("eventBox", eventBox) && env.zzSet("ansiProcessor", plainAnsi)) {
			return nil, nil, nil
		}
		return zzLift_plainBuilder(env), env, nil
	}
	env := &zzEnv_nthBuilder{}
	tr := func(tokens []Token, index int32) string {
		f := zzv.CfgInt("field")
		if len(tokens) >= f {
			return tokens[f-1].text.ToString()
		}
		return ""
	}
	if !(env.zzSet("header", make([]string, 0, headerLines)) && env.zzSet("opts", opts) && env.zzSet("eventBox", eventBox) && env.zzSet("ansiProcessor", plainAnsi) && env.zzSet("nthTransformer", tr)) {
		return nil, nil, nil
	}
	return zzLift_nthBuilder(env), nil, env
}

// H7.stream: the streaming filter (fzf -f q --no-sort) prints, for every matching record, the
// original input record - also when the display was transformed by --with-nth.
func zzH_C07_stream() {
	algo.Init("default")
	sortCriteria = []criterion{byScore, byLength}
	withNth := zzv.CfgBool("withnth")
	var printed []string
	opts := &Options{Printer: func(s string) { printed = append(printed, s) }, Theme: &tui.ColorTheme{}}
	eventBox := util.NewEventBox()
	builder, _, _ := zzBuilders(withNth, 0, opts, eventBox)
	if builder == nil {
		return
	}
	cl := NewChunkList(NewChunkCache(), builder)
	pattern := BuildPattern(NewChunkCache(), map[string]*Pattern{}, true, algo.FuzzyMatchV2, true, CaseSmart, true, true,
		false, false, nil, Delimiter{}, revision{}, []rune("a"), nil)
	env := &zzEnv_streamPusher{}
	if !(env.zzSet("opts", opts) && env.zzSet("chunkList", cl) && env.zzSet("pattern", pattern)) {
		return
	}
	push := zzLift_streamPusher(env)
	nrec := zzv.Choose(1, zzv.CfgInt("records"))
	var recs [][]byte
	for i := 0; i < nrec; i++ {
		rec := zzRecord(zzv.Choose(0, zzv.CfgInt("nmax")))
		recs = append(recs, rec)
		zzv.Assert("never-stored", !push(rec))
	}
	zzv.Reach("fed")
	zzv.Observe("printed", len(printed))
	// every printed line is one of the input records, in input order
	k := 0
	ok := true
	for _, p := range printed {
		for k < len(recs) && string(recs[k]) != p {
			k++
		}
		if k == len(recs) {
			ok = false
		}
		k++
	}
	zzv.Assert("prints-original-records", ok)
	zzv.Assert("found-iff-printed", env.found == (len(printed) > 0))
}

// H6.build: the item builders of Run: the first --header-lines records are diverted (never items),
// every other record gets the next ordinal and keeps its bytes (origText under --with-nth).
func zzH_C06_build() {
	withNth := zzv.CfgBool("withnth")
	hl := zzv.Choose(0, zzv.CfgInt("headers"))
	opts := &Options{Theme: &tui.ColorTheme{}}
	eventBox := util.NewEventBox()
	builder, penv, nenv := zzBuilders(withNth, hl, opts, eventBox)
	if builder == nil {
		return
	}
	nrec := zzv.Choose(0, zzv.CfgInt("records"))
	accepted := 0
	for i := 0; i < nrec; i++ {
		rec := zzRecord(zzv.Choose(0, zzv.CfgInt("nmax")))
		keep := append([]byte{}, rec...)
		var item Item
		got := builder(&item, rec)
		if i < hl {
			zzv.Assert("header-record-diverted", !got)
		} else {
			zzv.Assert("record-becomes-item", got)
			if got {
				zzv.Assert("ordinal-counts-items", int(item.Index()) == accepted)
				zzv.Assert("output-is-original-record", item.AsString(false) == string(keep))
			}
			accepted++
		}
	}
	zzv.Reach("built")
	want := hl
	if nrec < hl {
		want = nrec
	}
	if penv != nil {
		zzv.Assert("header-count", len(penv.header) == want)
	} else {
		zzv.Assert("header-count", len(nenv.header) == want)
	}
}

func init() {
	zzHarnesses["zzH_C07_ansi"] = zzH_C07_ansi
}

// H7.ansi: the two --ansi record processors of Run (lifted): the text of the item - which is what
// gets searched and printed - is the record minus every sequence the documented scanner removes
// (not only the ESC-introduced ones), for two consecutive records (colour state carried over).
func zzH_C07_ansi() {
	var proc func(data []byte) (util.Chars, *[]ansiOffset)
	if zzv.CfgBool("colored") {
		env := &zzEnv_ansiColored{}
		proc = zzLift_ansiColored(env)
	} else {
		env := &zzEnv_ansiPlain{}
		proc = zzLift_ansiPlain(env)
	}
	for rec := 0; rec < zzv.CfgInt("recs"); rec++ {
		n := zzv.Choose(0, zzv.CfgInt("nmax"))
		s := zzString(n, zzv.CfgInt("bytes"))
		chars, _ := proc([]byte(s))
		zzv.Reach("processed")
		if !utf8.ValidString(s) {
			return // C07 speaks about valid UTF-8 input (invalid bytes become U+FFFD in the item text)
		}
		zzv.Assert("ansi-record-text-is-the-record-minus-sequences", chars.ToString() == zzRefStrip(s))
		item := Item{text: chars}
		zzv.Assert("ansi-output-is-the-stripped-record", item.AsString(true) == zzRefStrip(s))
	}
}
