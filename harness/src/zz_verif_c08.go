package fzf

import (
	"github.com/junegunn/fzf/src/algo"
	"github.com/junegunn/fzf/src/util"
	"github.com/junegunn/fzf/src/zzv"
)

func init() {
	zzHarnesses["zzH_C08_cache"] = zzH_C08_cache
}

var zzCacheQueries = []string{"c", "ce", "cd", "f", "fh", "c e", "^c", "e$", "'c", "!c", "c | f", "cf"}

// H8.cache: result caches and incremental narrowing are never observable. A sequence of queries
// is run through Pattern.Match on one full chunk with a shared ChunkCache (as successive
// keystrokes do); after every query the list must equal an uncached evaluation of that query.
// chunkSize is scaled to 10 so that queryCacheMax is 2 and both cached and uncached lists occur.
func zzH_C08_cache() {
	algo.Init("default")
	sortCriteria = []criterion{byScore, byLength}
	fuzzyMode := zzv.CfgBool("fuzzy")
	chunk := &Chunk{}
	nsym := zzv.CfgInt("symbolic")
	fixed := []string{"ab", "cd", "ce", "fg", "fh", "ij", "kl", "mn", "op", "qr"}
	for i := 0; i < chunkSize; i++ {
		var line []byte
		if i < nsym {
			line = []byte{"cf"[zzv.Below(2)], "eh"[zzv.Below(2)]}
		} else {
			line = []byte(fixed[i%len(fixed)])
		}
		chunk.items[i].text = util.ToChars(line)
		chunk.items[i].text.Index = int32(i)
	}
	chunk.count = chunkSize
	cache := NewChunkCache()
	patternCache := map[string]*Pattern{}
	steps := zzv.CfgInt("steps")
	for s := 0; s < steps; s++ {
		q := zzCacheQueries[zzv.Choose(0, zzv.CfgInt("queries")-1)]
		p := BuildPattern(cache, patternCache, fuzzyMode, algo.FuzzyMatchV2, true, CaseSmart, true, true,
			false, true, nil, Delimiter{}, revision{}, []rune(q), nil)
		got := p.Match(chunk, nil)
		fresh := BuildPattern(NewChunkCache(), map[string]*Pattern{}, fuzzyMode, algo.FuzzyMatchV2, true, CaseSmart, true, true,
			false, false, nil, Delimiter{}, revision{}, []rune(q), nil)
		want := fresh.matchChunk(chunk, nil, nil)
		same := len(got) == len(want)
		if same {
			for i := range got {
				if got[i].item != want[i].item || got[i].points != want[i].points {
					same = false
				}
			}
		}
		zzv.Assert("cached-equals-fresh-filter", same)
	}
	zzv.Reach("done")
}

func init() {
	zzHarnesses["zzH_C08_loop"] = zzH_C08_loop
}

var zzLoopLines = []string{"cab", "ca", "ab", "a", "cb", "ba", "c", "aa", "bc", "ac", "bb", "cc"}

// zzResultsOf lists a merger's results (item ordinal, sort key).
func zzSameMerger(a, b *Merger) bool {
	if a.Length() != b.Length() {
		return false
	}
	ok := true
	for i := 0; i < a.Length(); i++ {
		ra, rb := a.Get(i), b.Get(i)
		if ra.item.Index() != rb.item.Index() || ra.points != rb.points {
			ok = false
		}
	}
	return ok
}

// H8.loop: the real Matcher.Loop (run as a coroutine) is driven through histories of the events
// the coordinator produces - more input (with and without --tail), query changes, sort toggles,
// reloads - and, whenever a request is final, the published list must equal what a fresh matcher
// (new caches) computes for that very request: result caches, the merger cache and revision
// handling are never observable.
func zzH_C08_loop() {
	algo.Init("default")
	sortCriteria = []criterion{byScore, byLength}
	tail := zzv.CfgInt("tail")
	cache := NewChunkCache()
	patternCache := map[string]*Pattern{}
	rev := revision{}
	next := 0
	cl := NewChunkList(cache, func(item *Item, data []byte) bool {
		item.text = util.ToChars(data)
		item.text.Index = int32(next)
		next++
		return true
	})
	builder := func(c *ChunkCache, pc map[string]*Pattern, r revision) func([]rune) *Pattern {
		return func(runes []rune) *Pattern {
			return BuildPattern(c, pc, true, algo.FuzzyMatchV2, true, CaseSmart, true, true,
				false, true, nil, Delimiter{}, r, runes, nil)
		}
	}
	eventBox := util.NewEventBox()
	m := NewMatcher(cache, func(runes []rune) *Pattern { return builder(cache, patternCache, rev)(runes) }, true, false, eventBox, rev)
	m.partitions = 2
	m.slab = make([]*util.Slab, 2)
	go m.Loop()
	lineNo := 0
	push := func(k int) {
		for i := 0; i < k; i++ {
			l := zzLoopLines[lineNo%len(zzLoopLines)]
			if lineNo == 1 && zzv.CfgBool("symbolic") {
				l = string([]byte{"abc"[zzv.Below(3)], 'a'})
			}
			lineNo++
			cl.Push([]byte(l))
		}
	}
	query := "a"
	sortOn := true
	push(zzv.CfgInt("initial"))
	steps := zzv.CfgInt("steps")
	reading := true // input is still being loaded; final = !reading, as the coordinator computes it
	for s := 0; s < steps; s++ {
		cancel := true
		ev := zzv.Choose(0, 4)
		if s == steps-1 && reading {
			ev = 4 // every history ends with the end of input: the quiescent state the property speaks of
		}
		switch ev {
		case 0: // more input arrives (only while loading)
			zzv.Assume(reading)
			push(zzv.Choose(1, 2))
			cancel = false
		case 1: // the query changes
			query = []string{"a", "b", "ab", "c"}[zzv.Choose(0, 3)]
		case 2: // toggle-sort
			sortOn = !sortOn
		case 3: // reload: new input stream
			rev.bumpMajor()
			cl.Clear()
			patternCache = map[string]*Pattern{}
			push(zzv.Choose(1, 3))
			reading = true
		case 4: // end of input (possibly with a last batch)
			zzv.Assume(reading)
			push(zzv.Choose(0, 1))
			reading = false
			cancel = false
		}
		final := !reading
		snapshot, _, changed := cl.Snapshot(tail)
		if changed {
			rev.bumpMinor()
		}
		m.Reset(snapshot, []rune(query), cancel, final, sortOn, rev)
		zzv.RunUntilIdle()
		var got *Merger
		eventBox.Wait(func(events *util.Events) {
			if v, ok := (*events)[EvtSearchFin]; ok {
				got = v.(*Merger)
			}
			events.Clear()
		})
		zzv.Assert("every-request-is-answered", got != nil)
		if got != nil {
			fm := NewMatcher(NewChunkCache(), builder(NewChunkCache(), map[string]*Pattern{}, rev), sortOn, false, util.NewEventBox(), rev)
			fm.partitions = 2
			fm.slab = make([]*util.Slab, 2)
			want, _ := fm.scan(MatchRequest{chunks: snapshot, pattern: builder(NewChunkCache(), map[string]*Pattern{}, rev)([]rune(query)), final: final, sort: sortOn, revision: rev})
			zzv.Observe("step", s)
			zzv.Observe("got", got.Length())
			zzv.Observe("want", want.Length())
			same := zzSameMerger(got, want)
			if final {
				// C08: the quiescent list equals a fresh filter
				zzv.Assert("final-result-equals-fresh-filter", same)
				zzv.Assert("final-flag-published", got.final)
				zzv.Reach("opt:final-compared")
			} else {
				// C13: every published result is the filter of the snapshot its search was started on
				zzv.Assert("published-result-is-filter-of-its-snapshot", same)
			}
		}
	}
	m.Stop()
	zzv.RunUntilIdle()
	zzv.Reach("done")
}
