package fzf

import (
	"github.com/junegunn/fzf/src/algo"
	"github.com/junegunn/fzf/src/util"
	"github.com/junegunn/fzf/src/zzv"
)

func init() {
	zzHarnesses["zzH_C08_cache"] = zzH_C08_cache
}

var zzCacheQueries = []string{"c", "ce", "cd", "f", "fh", "c e", "^c", "e$", "'c", "!c", "c | f", "cf"}

// H8.cache: result caches and incremental narrowing are never observable. A sequence of queries
// is run through Pattern.Match on one full chunk with a shared ChunkCache (as successive
// keystrokes do); after every query the list must equal an uncached evaluation of that query.
// chunkSize is scaled to 10 so that queryCacheMax is 2 and both cached and uncached lists occur.
func zzH_C08_cache() {
	algo.Init("default")
	sortCriteria = []criterion{byScore, byLength}
	fuzzyMode := zzv.CfgBool("fuzzy")
	chunk := &Chunk{}
	nsym := zzv.CfgInt("symbolic")
	fixed := []string{"ab", "cd", "ce", "fg", "fh", "ij", "kl", "mn", "op", "qr"}
	for i := 0; i < chunkSize; i++ {
		var line []byte
		if i < nsym {
			line = []byte{"cf"[zzv.Below(2)], "eh"[zzv.Below(2)]}
		} else {
			line = []byte(fixed[i%len(fixed)])
		}
		chunk.items[i].text = util.ToChars(line)
		chunk.items[i].text.Index = int32(i)
	}
	chunk.count = chunkSize
	cache := NewChunkCache()
	patternCache := map[string]*Pattern{}
	steps := zzv.CfgInt("steps")
	for s := 0; s < steps; s++ {
		q := zzCacheQueries[zzv.Choose(0, zzv.CfgInt("queries")-1)]
		p := BuildPattern(cache, patternCache, fuzzyMode, algo.FuzzyMatchV2, true, CaseSmart, true, true,
			false, true, nil, Delimiter{}, revision{}, []rune(q), nil)
		got := p.Match(chunk, nil)
		fresh := BuildPattern(NewChunkCache(), map[string]*Pattern{}, fuzzyMode, algo.FuzzyMatchV2, true, CaseSmart, true, true,
			false, false, nil, Delimiter{}, revision{}, []rune(q), nil)
		want := fresh.matchChunk(chunk, nil, nil)
		same := len(got) == len(want)
		if same {
			for i := range got {
				if got[i].item != want[i].item || got[i].points != want[i].points {
					same = false
				}
			}
		}
		zzv.Assert("cached-equals-fresh-filter", same)
	}
	zzv.Reach("done")
}
