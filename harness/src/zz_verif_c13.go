package fzf

import (
	"github.com/junegunn/fzf/src/zzv"
)

func init() {
	zzHarnesses["zzH_C13_cache"] = zzH_C13_cache
}

var zzCacheKeys = []string{"", "a", "ab", "abc", "bc", "b"}

// H13.cache: ChunkCache never stores or serves an entry for a chunk that is still being
// filled (count < chunkSize), for an empty key or for a list above queryCacheMax; Search
// serves the entry of the longest proper prefix/suffix of the key; retire/Clear remove.
func zzH_C13_cache() {
	cc := NewChunkCache()
	full := &Chunk{count: chunkSize}
	part := &Chunk{count: zzv.Choose(0, chunkSize-1)}
	chunks := []*Chunk{full, part}
	// reference: (chunk, key) -> id of the stored list (0 = none)
	var ref [2][6]int
	nextID := 1
	ops := zzv.CfgInt("ops")
	for o := 0; o < ops; o++ {
		ci := zzv.Choose(0, 1)
		c := chunks[ci]
		switch zzv.Choose(0, 4) {
		case 0: // Add
			ki := zzv.Choose(0, len(zzCacheKeys)-1)
			l := zzv.Choose(0, queryCacheMax+1)
			list := make([]Result, l)
			id := nextID
			nextID++
			for i := range list {
				list[i].points[0] = uint16(id)
			}
			// tag empty lists through their capacity
			if l == 0 {
				list = make([]Result, 0, id+1)
			}
			cc.Add(c, zzCacheKeys[ki], list)
			if ci == 0 && ki != 0 && l <= queryCacheMax {
				ref[ci][ki] = id
			}
		case 1: // Lookup
			ki := zzv.Choose(0, len(zzCacheKeys)-1)
			got := cc.Lookup(c, zzCacheKeys[ki])
			want := ref[ci][ki]
			if ki == 0 || ci == 1 {
				want = 0
			}
			zzv.Assert("lookup", zzListID(got) == want)
			zzv.Reach("opt:lookup")
		case 2: // Search
			ki := zzv.Choose(0, len(zzCacheKeys)-1)
			key := zzCacheKeys[ki]
			got := cc.Search(c, key)
			want := 0
			if ci == 0 && len(key) > 0 {
			outer:
				for idx := 1; idx < len(key); idx++ {
					for _, sub := range [2]string{key[:len(key)-idx], key[idx:]} {
						for kj, k := range zzCacheKeys {
							if k == sub && ref[0][kj] != 0 {
								want = ref[0][kj]
								break outer
							}
						}
					}
				}
			}
			zzv.Assert("search-narrows-to-longest-cached-affix", zzListID(got) == want)
			zzv.Reach("opt:search")
		case 3: // retire
			cc.retire(c)
			for k := range ref[ci] {
				ref[ci][k] = 0
			}
		case 4: // Clear
			cc.Clear()
			ref = [2][6]int{}
		}
	}
	zzv.Reach("done")
}

func zzListID(l []Result) int {
	if l == nil {
		return 0
	}
	if len(l) == 0 {
		return cap(l) - 1
	}
	return int(l[0].points[0])
}
