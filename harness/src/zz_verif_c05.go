package fzf

import (
	"github.com/junegunn/fzf/src/algo"
	"github.com/junegunn/fzf/src/util"
	"github.com/junegunn/fzf/src/zzv"
)

func init() {
	zzHarnesses["zzH_C05_shared"] = zzH_C05_shared
}

// H5.shared: one *Pattern is handed to every matcher worker and to the terminal at the same time.
// The argument "the result for a line does not depend on which worker handled it" (slab
// independence, C05) needs the pattern to be read-only while matching: no field of it - scratch
// space included - may be written by MatchItem or Match. Decided as a frame condition: the direct
// contents of the Pattern before and after matching a line are the same.
func zzH_C05_shared() {
	algo.Init("default")
	sortCriteria = []criterion{byScore, byLength}
	extended := zzv.CfgBool("extended")
	var q string
	if extended {
		q, _ = zzGenQuery(zzv.CfgInt("sets"), zzv.CfgInt("alts"), zzv.CfgInt("len"))
	} else {
		m := zzv.Choose(1, 2)
		b := make([]rune, m)
		for i := range b {
			b[i] = zzLineAlphabet[zzv.Below(len(zzLineAlphabet))]
		}
		q = string(b)
	}
	var nth []Range
	if zzv.CfgBool("nth") {
		nth = []Range{{1, 1}}
	}
	n := zzv.Choose(0, zzv.CfgInt("nmax"))
	line := make([]rune, n)
	for i := range line {
		line[i] = zzLineAlphabet[zzv.Below(len(zzLineAlphabet))]
	}
	item := &Item{text: util.ToChars([]byte(string(line)))}
	p := BuildPattern(NewChunkCache(), map[string]*Pattern{}, true, algo.FuzzyMatchV2, extended, CaseSmart, true, true,
		false, zzv.CfgBool("nth"), nth, Delimiter{}, revision{}, []rune(q), nil)
	slab := util.MakeSlab(100, 100)
	zzv.Freeze("pattern", p)
	p.MatchItem(item, zzv.Bool(), slab)
	zzv.Reach("matched")
	zzv.Assert("shared-pattern-is-only-read-by-a-match", zzv.Unchanged("pattern", p))
	chunk := &Chunk{count: 1}
	chunk.items[0] = *item
	p.Match(chunk, slab)
	zzv.Assert("shared-pattern-is-only-read-by-a-chunk-scan", zzv.Unchanged("pattern", p))
}
