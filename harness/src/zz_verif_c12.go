package fzf

import (
	"github.com/junegunn/fzf/src/zzv"
)

func init() {
	zzHarnesses["zzH_C12_esq"] = zzH_C12_esq
}

var zzShellAlphabet2 = []byte{'\'', '\\', 'a', ' ', '$', '`', '"', '\n', ';', '*'}

// H12.esq: escapeSingleQuote (used to re-launch fzf inside tmux) yields one POSIX shell word equal to its input.
func zzH_C12_esq() {
	n := zzv.Choose(0, zzv.CfgInt("nmax"))
	b := make([]byte, n)
	for i := range b {
		b[i] = zzShellAlphabet2[zzv.Below(len(zzShellAlphabet2))]
	}
	s := string(b)
	q := escapeSingleQuote(s)
	zzv.Reach("called")
	zzv.Observe("qlen", len(q))
	// inside '...' everything is literal; the only way out is '\'' 
	out := []byte{}
	ok := len(q) >= 2 && q[0] == '\''
	i := 1
	closed := false
	for ok && i < len(q) {
		if q[i] != '\'' {
			out = append(out, q[i])
			i++
			continue
		}
		// a quote: either the final one or the start of '\''
		if i == len(q)-1 {
			closed = true
			i++
			break
		}
		if i+3 < len(q) && q[i+1] == '\\' && q[i+2] == '\'' && q[i+3] == '\'' {
			out = append(out, '\'')
			i += 4
			continue
		}
		ok = false
	}
	zzv.Assert("one-word-equal-to-input", ok && closed && i == len(q) && string(out) == s)
}
