package fzf

import (
	"os"
	"os/exec"
	"strings"

	"github.com/junegunn/fzf/src/tui"

	"github.com/junegunn/fzf/src/util"
	"github.com/junegunn/fzf/src/zzv"
)

func init() {
	zzHarnesses["zzH_C12_esq"] = zzH_C12_esq
}

var zzShellAlphabet2 = []byte{'\'', '\\', 'a', ' ', '$', '`', '"', '\n', ';', '*'}

// H12.esq: escapeSingleQuote (used to re-launch fzf inside tmux) yields one POSIX shell word equal to its input.
func zzH_C12_esq() {
	n := zzv.Choose(0, zzv.CfgInt("nmax"))
	b := make([]byte, n)
	for i := range b {
		b[i] = zzShellAlphabet2[zzv.Below(len(zzShellAlphabet2))]
	}
	s := string(b)
	q := escapeSingleQuote(s)
	zzv.Reach("called")
	zzv.Observe("qlen", len(q))
	// inside '...' everything is literal; the only way out is '\'' 
	out := []byte{}
	ok := len(q) >= 2 && q[0] == '\''
	i := 1
	closed := false
	for ok && i < len(q) {
		if q[i] != '\'' {
			out = append(out, q[i])
			i++
			continue
		}
		// a quote: either the final one or the start of '\''
		if i == len(q)-1 {
			closed = true
			i++
			break
		}
		if i+3 < len(q) && q[i+1] == '\\' && q[i+2] == '\'' && q[i+3] == '\'' {
			out = append(out, '\'')
			i += 4
			continue
		}
		ok = false
	}
	zzv.Assert("one-word-equal-to-input", ok && closed && i == len(q) && string(out) == s)
}

func init() {
	zzHarnesses["zzH_C12_expand"] = zzH_C12_expand
}

var zzItemAlphabet = []byte{'\'', 'a', ' ', '$', ';', '\\'}

// H12.expand: replacePlaceholder on concrete templates with symbolic item texts:
// each placeholder expands to shell words that evaluate back to the original texts - one word per
// item, in the order given; {n} is the ordinal; an escaped placeholder stays literal; a raw
// placeholder earlier in the same template does not change what a quoting one expands to.
func zzH_C12_expand() {
	ex := util.NewExecutor("")
	mk := func(idx int32) *Item {
		n := zzv.Choose(0, zzv.CfgInt("nmax"))
		b := make([]byte, n)
		for i := range b {
			b[i] = zzItemAlphabet[zzv.Below(len(zzItemAlphabet))]
		}
		it := &Item{text: util.ToChars(b)}
		it.text.Index = idx
		return it
	}
	cur := mk(7)
	sel1, sel2 := mk(3), mk(5)
	query := "q'$"
	if zzv.Bool() {
		query = "{} '{+}"
	}
	params := replacePlaceholderParams{
		delimiter: Delimiter{}, printsep: "\n", query: query,
		allItems: []*Item{cur, sel1, sel2}, executor: ex, prompt: "> "}
	// the real replacePlaceholder on concrete templates (placeholder discovery runs Go's regexp
	// natively on the concrete template; the per-placeholder callback is executed symbolically)
	prefix := ""
	rawText := ""
	if zzv.Bool() {
		// a raw placeholder used earlier in the same template
		prefix = "{r} "
		rawText = cur.AsString(false) + " "
	}
	expand := func(tmpl string) string {
		params.template = prefix + tmpl
		res, _ := replacePlaceholder(params)
		zzv.Assert("raw-is-item-text", len(res) >= len(rawText) && res[:len(rawText)] == rawText)
		if len(res) < len(rawText) {
			return ""
		}
		return res[len(rawText):]
	}
	words := func(s string) ([]string, bool) {
		w, active, open := util.ZZShWords(s, false)
		return w, !active && !open
	}
	zzv.Reach("called")
	switch zzv.Choose(0, 5) {
	case 0:
		w, safe := words(expand("{}"))
		zzv.Assert("current-item-one-word", safe && len(w) == 1 && w[0] == cur.AsString(false))
	case 1:
		w, safe := words(expand("{+}"))
		zzv.Assert("selected-items-in-order", safe && len(w) == 2 && w[0] == sel1.AsString(false) && w[1] == sel2.AsString(false))
	case 2:
		w, safe := words(expand("{q}"))
		zzv.Assert("query-one-word", safe && len(w) == 1 && w[0] == query)
	case 3:
		zzv.Assert("ordinal", expand("{n}") == "7" && expand("{+n}") == "3 5")
	case 4:
		zzv.Assert("escaped-stays-literal", expand("\\{}") == "{}" && expand("\\{q}") == "{q}")
	case 5:
		// field expression: first field of the current item, trimmed
		w, safe := words(expand("{1}"))
		txt := cur.AsString(false)
		toks := Tokenize(txt, Delimiter{})
		want := ""
		if len(toks) > 0 {
			want = strings.TrimSpace(toks[0].text.ToString())
		}
		zzv.Assert("field-one-word", safe && len(w) == 1 && w[0] == want)
	}
}

func init() {
	zzHarnesses["zzH_C12_tmux"] = zzH_C12_tmux
}

// In the engine runProxy (fifos, a temp script, the tmux process) is replaced by this capture of the
// command line runTmux built. Natively the real runProxy runs, with a fake `tmux` first on PATH that
// keeps a copy of the generated script, from which the same command line is read back.
var zzProxyPrefix string
var zzProxyCalls int

func zzM_runProxy(commandPrefix string, cmdBuilder func(temp string, needBash bool) (*exec.Cmd, error), opts *Options, withExports bool) (int, error) {
	zzProxyPrefix = commandPrefix
	zzProxyCalls++
	return ExitOk, nil
}

// H12.tmux: the argument vector re-quoted for the re-launch inside tmux is read back by a POSIX
// shell (the generated script is always run by sh or bash) as exactly the original arguments,
// whatever shell the user has.
func zzH_C12_tmux() {
	const marker = "/zz/fzf-marker"
	n := zzv.Choose(0, zzv.CfgInt("nmax"))
	b := make([]byte, n)
	for i := range b {
		b[i] = zzShellAlphabet2[zzv.Below(len(zzShellAlphabet2))]
	}
	arg := string(b)
	args := []string{marker, arg, "--x=y z"}
	opts := &Options{Tmux: &tmuxOptions{border: zzv.Bool()}, Margin: defaultMargin(), ForceTtyIn: true, WithShell: zzv.CfgStr("withshell")}
	if zzv.Bool() {
		opts.BorderShape = tui.BorderRounded
	}
	os.Setenv("SHELL", zzv.CfgStr("env:SHELL"))
	captured := zzv.FakeCommand("tmux")
	zzProxyCalls = 0
	code, err := runTmux(args, opts)
	zzv.Reach("relaunched")
	prefix := zzProxyPrefix
	if zzProxyCalls == 0 {
		data, _ := zzv.ReadBack(captured)
		script := string(data)
		from := strings.Index(script, "'"+marker+"'")
		to := strings.LastIndex(script, " --no-force-tty-in --proxy-script")
		if from < 0 || to < from {
			zzv.Assert("opt:relaunch-script-written", false)
			return
		}
		prefix = script[from:to]
	}
	zzv.Assert("relaunch-succeeds", code == ExitOk && err == nil)
	// which flags fzf adds for the run inside tmux is its own business: the command must start with
	// the program and carry the original arguments, in order, each as exactly one word
	words, active, open := util.ZZShWords(prefix, false)
	want := []string{marker, arg, "--x=y z"}
	k := 0
	for i, w := range words {
		if k < len(want) && w == want[k] && (k > 0 || i == 0) {
			k++
		}
	}
	same := k == len(want)
	zzv.Observe("nwords", len(words))
	zzv.Assert("relaunch-arguments-survive-posix-sh", same && !active && !open)
}
