package fzf

import (
	"io/fs"
	"path/filepath"
	"sync"

	"github.com/charlievieth/fastwalk"

	"github.com/junegunn/fzf/src/zzv"
)

func init() {
	zzHarnesses["zzH_C19_walkfn"] = zzH_C19_walkfn
}

type zzDirEntry struct {
	name  string
	isDir bool
}

func (d zzDirEntry) Name() string { return d.name }
func (d zzDirEntry) IsDir() bool  { return d.isDir }
func (d zzDirEntry) Type() fs.FileMode {
	if d.isDir {
		return fs.ModeDir
	}
	return 0
}
func (d zzDirEntry) Info() (fs.FileInfo, error) { return nil, nil }

var zzPathAlphabet = []byte{'.', '/', 'a', 'b', '\\'}

func zzHasSuffix(s, suf string) bool {
	return len(s) >= len(suf) && s[len(s)-len(suf):] == suf
}

// zzBase: last path element (trailing slashes ignored), "/" for a path of slashes only.
func zzBase(p string) string {
	end := len(p)
	for end > 0 && p[end-1] == '/' {
		end--
	}
	if end == 0 {
		return "/"
	}
	start := end
	for start > 0 && p[start-1] != '/' {
		start--
	}
	return p[start:end]
}

// H19: the callback readFiles hands to the directory walker (lifted from the current source).
func zzH_C19_walkfn() {
	opts := walkerOpts{file: zzv.CfgBool("file"), dir: zzv.CfgBool("dir"), hidden: zzv.CfgBool("hidden"), follow: zzv.CfgBool("follow")}
	var pushed []string
	r := &Reader{pusher: func(b []byte) bool { pushed = append(pushed, string(b)); return true }}
	// free variables of the callback are set by name: if the callback's environment changes shape
	// (a refactoring of readFiles' prologue) this harness no longer applies and steps aside - the
	// whole-readFiles harness zzH_C19_tree still covers prologue and callback together
	env := &zzEnv_walkFn{}
	applies := env.zzSet("r", r) && env.zzSet("opts", opts) && env.zzSet("sep", "/")
	if zzv.CfgBool("skip") {
		// --walker-skip b,a/b  as readFiles derives the three lists
		applies = applies && env.zzSet("ignoresBase", []string{"b"}) && env.zzSet("ignoresFull", []string{"a/b"}) && env.zzSet("ignoresSuffix", []string{"/a/b"})
	}
	if !applies {
		zzv.Reach("called")
		return
	}
	fn := zzLift_walkFn(env)
	n := zzv.Choose(1, zzv.CfgInt("nmax"))
	pb := make([]byte, n)
	for i := range pb {
		pb[i] = zzPathAlphabet[zzv.Below(len(zzPathAlphabet))]
	}
	path := string(pb)
	isDir := zzv.Bool()
	err := fn(path, zzDirEntry{name: zzBase(path), isDir: isDir}, nil)
	zzv.Reach("called")
	zzv.Observe("pushed", len(pushed))
	// reference
	tp := path
	for len(tp) > 1 && tp[0] == '.' && tp[1] == '/' {
		tp = tp[2:]
	}
	if len(tp) == 0 {
		tp = "."
	}
	if tp == "." {
		zzv.Assert("root-itself-not-listed", len(pushed) == 0 && err == nil)
		return
	}
	if isDir {
		base := zzBase(tp)
		pruned := !opts.hidden && base[0] == '.' && base != ".."
		if zzv.CfgBool("skip") {
			if base == "b" || tp == "a/b" || zzHasSuffix(tp, "/a/b") {
				pruned = true
			}
		}
		if pruned {
			zzv.Assert("pruned-dir-skipped-and-not-listed", err == filepath.SkipDir && len(pushed) == 0)
			return
		}
		zzv.Assert("dir-descended", err == nil)
		if opts.dir {
			want := tp
			if tp != "/" {
				want += "/"
			}
			zzv.Assert("dir-listed-with-one-trailing-separator", len(pushed) == 1 && pushed[0] == want)
		} else {
			zzv.Assert("dir-not-listed-without-dir-option", len(pushed) == 0)
		}
		return
	}
	zzv.Assert("file-never-prunes", err == nil)
	if opts.file {
		zzv.Assert("file-listed-relative-without-dot-slash", len(pushed) == 1 && pushed[0] == tp)
	} else {
		zzv.Assert("file-not-listed-without-file-option", len(pushed) == 0)
	}
}

func init() {
	zzHarnesses["zzH_C19_tree"] = zzH_C19_tree
}

type zzTreeEntry struct {
	path  string // relative to the root, no leading "./"
	isDir bool
}

// the tree the modelled walker reports (pre-order); natively the same tree exists on disk
var zzTree []zzTreeEntry

// zzMX_fastwalk_Walk models fastwalk.Walk over zzTree: every entry once, children after their
// directory, SkipDir on a directory prunes its subtree, SkipDir on a file skips the rest of its
// directory (as filepath.WalkDir documents).
func zzMX_fastwalk_Walk(conf *fastwalk.Config, root string, fn fs.WalkDirFunc) error {
	if err := fn(root, zzDirEntry{name: root, isDir: true}, nil); err != nil {
		return nil
	}
	skipPrefix := []string{}
	for _, e := range zzTree {
		skipped := false
		for _, p := range skipPrefix {
			if len(e.path) > len(p) && e.path[:len(p)] == p {
				skipped = true
			}
		}
		if skipped {
			continue
		}
		err := fn(root+"/"+e.path, zzDirEntry{name: zzBase(e.path), isDir: e.isDir}, nil)
		if err == filepath.SkipDir {
			if e.isDir {
				skipPrefix = append(skipPrefix, e.path+"/")
			} else {
				dir := ""
				for i := len(e.path) - 1; i >= 0; i-- {
					if e.path[i] == '/' {
						dir = e.path[:i+1]
						break
					}
				}
				skipPrefix = append(skipPrefix, dir)
			}
		} else if err != nil {
			return err
		}
	}
	return nil
}

func zzMX_fastwalk_DefaultToSlash() bool { return false }

// H19.tree: the whole readFiles (skip-list derivation + callback) over a small directory tree:
// the candidate list is exactly what the walker options describe.
func zzH_C19_tree() {
	opts := walkerOpts{file: zzv.CfgBool("file"), dir: zzv.CfgBool("dir"), hidden: zzv.CfgBool("hidden"), follow: false}
	zzv.FSEnterTemp("walk")
	zzTree = nil
	add := func(p string, isDir bool) {
		zzTree = append(zzTree, zzTreeEntry{p, isDir})
		if isDir {
			zzv.FSMkdir(p)
		} else {
			zzv.FSTouch(p)
		}
	}
	// a fixed shape with optional parts
	add("f", false)
	add("lib", true)
	add("lib/gen", true)
	add("lib/gen/x", false)
	if zzv.Bool() {
		add("mylib", true)
		add("mylib/gen", true)
		add("mylib/gen/y", false)
	}
	if zzv.Bool() {
		add(".h", true)
		add(".h/z", false)
	}
	if zzv.Bool() {
		add("gen", false) // a file named like a skip entry
	}
	skips := [][]string{{}, {"gen"}, {"lib/gen"}, {"/lib/gen"}, {"mylib", "x"}}[zzv.Choose(0, 4)]
	var got []string
	var mu sync.Mutex // the real walker calls back from several goroutines
	r := &Reader{pusher: func(b []byte) bool {
		mu.Lock()
		got = append(got, string(b))
		mu.Unlock()
		return true
	}}
	ok := r.readFiles([]string{"."}, opts, skips)
	zzv.Reach("walked")
	zzv.Assert("walk-succeeds", ok)
	// reference
	var want []string
	pruned := []string{}
	for _, e := range zzTree {
		under := false
		for _, p := range pruned {
			if len(e.path) > len(p) && e.path[:len(p)] == p {
				under = true
			}
		}
		if under {
			continue
		}
		if e.isDir {
			base := zzBase(e.path)
			skip := !opts.hidden && base[0] == '.'
			for _, s := range skips {
				hasSep := false
				for i := 0; i < len(s); i++ {
					if s[i] == '/' {
						hasSep = true
					}
				}
				switch {
				case !hasSep:
					if base == s {
						skip = true
					}
				case s[0] == '/':
					if zzHasSuffix(e.path, s) {
						skip = true
					}
				default:
					if e.path == s || zzHasSuffix(e.path, "/"+s) {
						skip = true
					}
				}
			}
			if skip {
				pruned = append(pruned, e.path+"/")
				continue
			}
			if opts.dir {
				want = append(want, e.path+"/")
			}
		} else if opts.file {
			want = append(want, e.path)
		}
	}
	zzv.Observe("listed", len(got))
	// compare as sets (the real walker is concurrent; each entry must appear exactly once)
	same := len(got) == len(want)
	for _, w := range want {
		n := 0
		for _, g := range got {
			if g == w {
				n++
			}
		}
		if n != 1 {
			same = false
		}
	}
	zzv.Assert("lists-exactly-the-described-entries", same)
}
