package fzf

import (
	"io/fs"
	"path/filepath"

	"github.com/junegunn/fzf/src/zzv"
)

func init() {
	zzHarnesses["zzH_C19_walkfn"] = zzH_C19_walkfn
}

type zzDirEntry struct {
	name  string
	isDir bool
}

func (d zzDirEntry) Name() string { return d.name }
func (d zzDirEntry) IsDir() bool  { return d.isDir }
func (d zzDirEntry) Type() fs.FileMode {
	if d.isDir {
		return fs.ModeDir
	}
	return 0
}
func (d zzDirEntry) Info() (fs.FileInfo, error) { return nil, nil }

var zzPathAlphabet = []byte{'.', '/', 'a', 'b', '\\'}

func zzHasSuffix(s, suf string) bool {
	return len(s) >= len(suf) && s[len(s)-len(suf):] == suf
}

// zzBase: last path element (trailing slashes ignored), "/" for a path of slashes only.
func zzBase(p string) string {
	end := len(p)
	for end > 0 && p[end-1] == '/' {
		end--
	}
	if end == 0 {
		return "/"
	}
	start := end
	for start > 0 && p[start-1] != '/' {
		start--
	}
	return p[start:end]
}

// H19: the callback readFiles hands to the directory walker (lifted from the current source).
func zzH_C19_walkfn() {
	opts := walkerOpts{file: zzv.CfgBool("file"), dir: zzv.CfgBool("dir"), hidden: zzv.CfgBool("hidden"), follow: zzv.CfgBool("follow")}
	var pushed []string
	r := &Reader{pusher: func(b []byte) bool { pushed = append(pushed, string(b)); return true }}
	env := &zzEnv_walkFn{r: r, opts: opts, sep: "/"}
	if zzv.CfgBool("skip") {
		// --walker-skip b,a/b  as readFiles derives the three lists
		env.ignoresBase = []string{"b"}
		env.ignoresFull = []string{"a/b"}
		env.ignoresSuffix = []string{"/a/b"}
	}
	fn := zzLift_walkFn(env)
	n := zzv.Choose(1, zzv.CfgInt("nmax"))
	pb := make([]byte, n)
	for i := range pb {
		pb[i] = zzPathAlphabet[zzv.Below(len(zzPathAlphabet))]
	}
	path := string(pb)
	isDir := zzv.Bool()
	err := fn(path, zzDirEntry{name: zzBase(path), isDir: isDir}, nil)
	zzv.Reach("called")
	zzv.Observe("pushed", len(pushed))
	// reference
	tp := path
	for len(tp) > 1 && tp[0] == '.' && tp[1] == '/' {
		tp = tp[2:]
	}
	if len(tp) == 0 {
		tp = "."
	}
	if tp == "." {
		zzv.Assert("root-itself-not-listed", len(pushed) == 0 && err == nil)
		return
	}
	if isDir {
		base := zzBase(tp)
		pruned := !opts.hidden && base[0] == '.' && base != ".."
		if zzv.CfgBool("skip") {
			if base == "b" || tp == "a/b" || zzHasSuffix(tp, "/a/b") {
				pruned = true
			}
		}
		if pruned {
			zzv.Assert("pruned-dir-skipped-and-not-listed", err == filepath.SkipDir && len(pushed) == 0)
			return
		}
		zzv.Assert("dir-descended", err == nil)
		if opts.dir {
			want := tp
			if tp != "/" {
				want += "/"
			}
			zzv.Assert("dir-listed-with-one-trailing-separator", len(pushed) == 1 && pushed[0] == want)
		} else {
			zzv.Assert("dir-not-listed-without-dir-option", len(pushed) == 0)
		}
		return
	}
	zzv.Assert("file-never-prunes", err == nil)
	if opts.file {
		zzv.Assert("file-listed-relative-without-dot-slash", len(pushed) == 1 && pushed[0] == tp)
	} else {
		zzv.Assert("file-not-listed-without-file-option", len(pushed) == 0)
	}
}
