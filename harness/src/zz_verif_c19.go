package fzf

import (
	"io/fs"
	"os"
	"path/filepath"
	"sync"

	"github.com/charlievieth/fastwalk"

	"github.com/junegunn/fzf/src/zzv"
)

func init() {
	zzHarnesses["zzH_C19_walkfn"] = zzH_C19_walkfn
}

type zzDirEntry struct {
	name    string
	isDir   bool
	symlink bool
	toDir   bool // symlink whose target is a directory
}

func (d zzDirEntry) Name() string { return d.name }
func (d zzDirEntry) IsDir() bool  { return d.isDir }
func (d zzDirEntry) Type() fs.FileMode {
	if d.symlink {
		return fs.ModeSymlink
	}
	if d.isDir {
		return fs.ModeDir
	}
	return 0
}
func (d zzDirEntry) Info() (fs.FileInfo, error) { return nil, nil }

var zzPathAlphabet = []byte{'.', '/', 'a', 'b', '\\'}

func zzHasSuffix(s, suf string) bool {
	return len(s) >= len(suf) && s[len(s)-len(suf):] == suf
}

// zzBase: last path element (trailing slashes ignored), "/" for a path of slashes only.
func zzBase(p string) string {
	end := len(p)
	for end > 0 && p[end-1] == '/' {
		end--
	}
	if end == 0 {
		return "/"
	}
	start := end
	for start > 0 && p[start-1] != '/' {
		start--
	}
	return p[start:end]
}

// H19: the callback readFiles hands to the directory walker (lifted from the current source).
func zzH_C19_walkfn() {
	opts := walkerOpts{file: zzv.CfgBool("file"), dir: zzv.CfgBool("dir"), hidden: zzv.CfgBool("hidden"), follow: zzv.CfgBool("follow")}
	var pushed []string
	r := &Reader{pusher: func(b []byte) bool { pushed = append(pushed, string(b)); return true }}
	// free variables of the callback are set by name: if the callback's environment changes shape
	// (a refactoring of readFiles' prologue) this harness no longer applies and steps aside - the
	// whole-readFiles harness zzH_C19_tree still covers prologue and callback together
	env := &zzEnv_walkFn{}
	applies := env.zzSet("r", r) && env.zzSet("opts", opts) && env.zzSet("sep", "/")
	if zzv.CfgBool("skip") {
		// --walker-skip b,a/b  as readFiles derives the three lists
		applies = applies && env.zzSet("ignoresBase", []string{"b"}) && env.zzSet("ignoresFull", []string{"a/b"}) && env.zzSet("ignoresSuffix", []string{"/a/b"})
	}
	if !applies {
		zzv.Reach("called")
		return
	}
	fn := zzLift_walkFn(env)
	n := zzv.Choose(1, zzv.CfgInt("nmax"))
	pb := make([]byte, n)
	for i := range pb {
		pb[i] = zzPathAlphabet[zzv.Below(len(zzPathAlphabet))]
	}
	path := string(pb)
	isDir := zzv.Bool()
	err := fn(path, zzDirEntry{name: zzBase(path), isDir: isDir}, nil)
	zzv.Reach("called")
	zzv.Observe("pushed", len(pushed))
	// reference
	tp := path
	for len(tp) > 1 && tp[0] == '.' && tp[1] == '/' {
		tp = tp[2:]
	}
	if len(tp) == 0 {
		tp = "."
	}
	if tp == "." {
		zzv.Assert("root-itself-not-listed", len(pushed) == 0 && err == nil)
		return
	}
	if isDir {
		base := zzBase(tp)
		pruned := !opts.hidden && base[0] == '.' && base != ".."
		if zzv.CfgBool("skip") {
			if base == "b" || tp == "a/b" || zzHasSuffix(tp, "/a/b") {
				pruned = true
			}
		}
		if pruned {
			zzv.Assert("pruned-dir-skipped-and-not-listed", err == filepath.SkipDir && len(pushed) == 0)
			return
		}
		zzv.Assert("dir-descended", err == nil)
		if opts.dir {
			want := tp
			if tp != "/" {
				want += "/"
			}
			zzv.Assert("dir-listed-with-one-trailing-separator", len(pushed) == 1 && pushed[0] == want)
		} else {
			zzv.Assert("dir-not-listed-without-dir-option", len(pushed) == 0)
		}
		return
	}
	zzv.Assert("file-never-prunes", err == nil)
	if opts.file {
		zzv.Assert("file-listed-relative-without-dot-slash", len(pushed) == 1 && pushed[0] == tp)
	} else {
		zzv.Assert("file-not-listed-without-file-option", len(pushed) == 0)
	}
}

func init() {
	zzHarnesses["zzH_C19_tree"] = zzH_C19_tree
}

type zzTreeEntry struct {
	path   string // relative to the root, no leading "./"
	isDir  bool
	link   bool   // a symbolic link ...
	target string // ... to this entry of the tree
}

// the tree the modelled walker reports; natively the same tree exists on disk
var zzTree []zzTreeEntry

func zzParent(p string) string {
	for i := len(p) - 1; i >= 0; i-- {
		if p[i] == '/' {
			return p[:i]
		}
	}
	return ""
}

func zzTreeIsDir(p string) bool {
	for _, e := range zzTree {
		if e.path == p {
			return e.isDir
		}
	}
	return false
}

// zzM_isSymlinkToDir stands in for isSymlinkToDir (os.Stat on the link) in the engine: the answer
// comes from the tree description. Natively the real function runs against the real tree.
func zzM_isSymlinkToDir(path string, de os.DirEntry) bool {
	z, ok := de.(zzDirEntry)
	return ok && z.symlink && z.toDir
}

// zzMX_fastwalk_Walk models fastwalk.Walk over zzTree, following fastwalk.go (walk, onDirEnt):
// every entry of a directory is reported once; SkipDir on a directory or on a symbolic link means
// "do not descend"; SkipDir on a plain file is handed up like any other error; a symbolic link to a
// directory is descended, without a second callback, only when conf.Follow is set and the callback
// returned nil. The order within a directory is unspecified (the real walker is concurrent).
func zzMX_fastwalk_Walk(conf *fastwalk.Config, root string, fn fs.WalkDirFunc) error {
	err := fn(root, zzDirEntry{name: root, isDir: true}, nil)
	if err == filepath.SkipDir {
		return nil
	}
	if err != nil {
		return err
	}
	return zzModelWalkDir(conf, root, "", fn)
}

func zzModelWalkDir(conf *fastwalk.Config, shown string, real string, fn fs.WalkDirFunc) error {
	for _, e := range zzTree {
		if zzParent(e.path) != real {
			continue
		}
		base := zzBase(e.path)
		p := shown + "/" + base
		switch {
		case e.link:
			toDir := zzTreeIsDir(e.target)
			err := fn(p, zzDirEntry{name: base, symlink: true, toDir: toDir}, nil)
			if err == filepath.SkipDir {
				continue
			}
			if err != nil {
				return err
			}
			// fastwalk's shouldTraverse: a link to one of its own ancestors is not descended
			loop := len(e.path) > len(e.target) && e.path[:len(e.target)+1] == e.target+"/"
			if conf.Follow && toDir && !loop {
				if err := zzModelWalkDir(conf, p, e.target, fn); err != nil {
					return err
				}
			}
		case e.isDir:
			err := fn(p, zzDirEntry{name: base, isDir: true}, nil)
			if err == filepath.SkipDir {
				continue
			}
			if err != nil {
				return err
			}
			if err := zzModelWalkDir(conf, p, e.path, fn); err != nil {
				return err
			}
		default:
			if err := fn(p, zzDirEntry{name: base}, nil); err != nil {
				return err
			}
		}
	}
	return nil
}

func zzMX_fastwalk_DefaultToSlash() bool { return false }

// H19.tree: the whole readFiles (skip-list derivation + callback) over a small directory tree:
// the candidate list is exactly what the walker options describe.
func zzH_C19_tree() {
	opts := walkerOpts{file: zzv.CfgBool("file"), dir: zzv.CfgBool("dir"), hidden: zzv.CfgBool("hidden"), follow: zzv.CfgBool("follow")}
	zzv.FSEnterTemp("walk")
	zzTree = nil
	add := func(p string, isDir bool) {
		zzTree = append(zzTree, zzTreeEntry{path: p, isDir: isDir})
		if isDir {
			zzv.FSMkdir(p)
		} else {
			zzv.FSTouch(p)
		}
	}
	link := func(p, target, relTarget string) {
		zzTree = append(zzTree, zzTreeEntry{path: p, link: true, target: target})
		zzv.FSSymlink(relTarget, p)
	}
	// a fixed shape with optional parts
	add("f", false)
	add("lib", true)
	add("lib/gen", true)
	add("lib/gen/x", false)
	if zzv.Bool() {
		add("mylib", true)
		add("mylib/gen", true)
		add("mylib/gen/y", false)
	}
	if zzv.Bool() {
		add(".h", true)
		add(".h/z", false)
	}
	if zzv.Bool() {
		add("gen", false) // a file named like a skip entry
	}
	if zzv.CfgBool("links") {
		switch zzv.Choose(0, 4) {
		case 1:
			link("ln", "lib", "lib") // a symbolic link to a directory
		case 2:
			link(".ln", "lib", "lib") // ... with a hidden name
		case 3:
			link("lf", "f", "f") // a symbolic link to a file
		case 4:
			link("lib/gen/up", "lib/gen", "../gen") // a link that leads back to its own directory (a cycle)
		}
	}
	skips := [][]string{{}, {"gen"}, {"lib/gen"}, {"/lib/gen"}, {"mylib", "x"}, {"ln"}}[zzv.Choose(0, 5)]
	var got []string
	var mu sync.Mutex // the real walker calls back from several goroutines
	r := &Reader{pusher: func(b []byte) bool {
		mu.Lock()
		got = append(got, string(b))
		mu.Unlock()
		return true
	}}
	ok := r.readFiles([]string{"."}, opts, skips)
	zzv.Reach("walked")
	zzv.Assert("walk-succeeds", ok)
	// reference: what the options describe
	var want []string // must be listed exactly once
	var free []string // the entry of a followed link itself: whether it counts as file or directory is not specified
	prunedDir := func(shown string) bool {
		base := zzBase(shown)
		skip := !opts.hidden && base[0] == '.'
		for _, s := range skips {
			hasSep := false
			for i := 0; i < len(s); i++ {
				if s[i] == '/' {
					hasSep = true
				}
			}
			switch {
			case !hasSep:
				if base == s {
					skip = true
				}
			case s[0] == '/':
				if zzHasSuffix(shown, s) {
					skip = true
				}
			default:
				if shown == s || zzHasSuffix(shown, "/"+s) {
					skip = true
				}
			}
		}
		return skip
	}
	var ref func(shown string, real string, depth int)
	ref = func(shown string, real string, depth int) {
		for _, e := range zzTree {
			if zzParent(e.path) != real {
				continue
			}
			p := shown + zzBase(e.path)
			switch {
			case e.link && zzTreeIsDir(e.target) && opts.follow:
				if prunedDir(p) {
					continue
				}
				free = append(free, p+"/")
				if e.path != "lib/gen/up" {
					ref(p+"/", e.target, depth+1)
				}
			case e.link:
				if opts.file {
					want = append(want, p)
				}
			case e.isDir:
				if prunedDir(p) {
					continue
				}
				if opts.dir {
					want = append(want, p+"/")
				}
				ref(p+"/", e.path, depth+1)
			default:
				if opts.file {
					want = append(want, p)
				}
			}
		}
	}
	ref("", "", 0)
	zzv.Observe("listed", len(got))
	// compare as sets (the real walker is concurrent; each entry must appear exactly once)
	same := true
	for _, w := range want {
		n := 0
		for _, g := range got {
			if g == w {
				n++
			}
		}
		if n != 1 {
			same = false
		}
	}
	for _, g := range got {
		n := 0
		for _, w := range want {
			if g == w {
				n++
			}
		}
		m := 0
		for _, f := range free {
			if g == f {
				m++
			}
		}
		k := 0
		for _, h := range got {
			if g == h {
				k++
			}
		}
		if n == 0 && (m == 0 || k != 1) {
			same = false
		}
	}
	zzv.Assert("lists-exactly-the-described-entries", same)
}

func init() {
	zzHarnesses["zzH_C19_opts"] = zzH_C19_opts
}

// H19.opts: parseWalkerOpts on comma lists of option words (any case), empty items and a foreign word.
func zzH_C19_opts() {
	words := []string{"file", "dir", "hidden", "follow", "", "files", "x"} // lower case only: case folding is not documented
	n := zzv.Choose(0, zzv.CfgInt("nmax"))
	str := ""
	var f, d, h, fo, bad bool
	for i := 0; i < n; i++ {
		w := zzv.Choose(0, len(words)-1)
		if i > 0 {
			str += ","
		}
		str += words[w]
		switch w {
		case 0:
			f = true
		case 1:
			d = true
		case 2:
			h = true
		case 3:
			fo = true
		case 4:
		default:
			bad = true
		}
	}
	opts, err := parseWalkerOpts(str)
	zzv.Reach("parsed")
	if bad || !(f || d) {
		zzv.Assert("invalid-walker-option-rejected", err != nil)
		return
	}
	zzv.Assert("valid-walker-option-accepted", err == nil)
	zzv.Assert("walker-options-as-written", opts.file == f && opts.dir == d && opts.hidden == h && opts.follow == fo)
}

func init() {
	zzHarnesses["zzH_C19_args"] = zzH_C19_args
}

// H19.args: the walker options as the command line gives them reach readFiles unchanged: --walker as written, --walker-skip exactly the names listed (it replaces the default
// list, and a later occurrence replaces an earlier one).
func zzH_C19_args() {
	names := []string{"target", ".git", "a/b", "", "x"}
	mk := func() (string, []string) {
		n := zzv.Choose(0, 2)
		str := ""
		var want []string
		for i := 0; i < n; i++ {
			w := names[zzv.Choose(0, len(names)-1)]
			if i > 0 {
				str += ","
			}
			str += w
			if w != "" {
				want = append(want, w)
			}
		}
		return str, want
	}
	args := []string{"--walker", "dir,hidden"} // --walker-root is validated against the file system (os.Stat): left out
	s1, want := mk()
	form := zzv.Choose(0, 2)
	switch form {
	case 0:
		args = append(args, "--walker-skip", s1)
	case 1:
		args = append(args, "--walker-skip="+s1)
	default:
		var s2 string
		s2, want = mk()
		args = append(args, "--walker-skip", s1, "--walker-skip="+s2)
	}
	opts := defaultOptions()
	idx := 0
	err := parseOptions(&idx, opts, args)
	zzv.Reach("parsed")
	zzv.Assert("walker-arguments-accepted", err == nil)
	if err != nil {
		return
	}
	same := len(opts.WalkerSkip) == len(want)
	for i := 0; same && i < len(want); i++ {
		same = opts.WalkerSkip[i] == want[i]
	}
	zzv.Assert("walker-skip-is-exactly-the-names-listed", same)
	zzv.Assert("walker-options-as-given", opts.WalkerOpts.dir && opts.WalkerOpts.hidden && !opts.WalkerOpts.file && !opts.WalkerOpts.follow)
}
