package fzf

import (
	"encoding/json"
	"errors"
	"io"
	"net"
	"os"
	"strings"
	"time"

	"github.com/junegunn/fzf/src/zzv"
)

func init() {
	zzHarnesses["zzH_C16_http"] = zzH_C16_http
	zzHarnesses["zzH_C16_start"] = zzH_C16_start
	zzHarnesses["zzH_C16_addr"] = zzH_C16_addr
}

// zzM_parseSingleActionList replaces parseSingleActionList inside the engine (action parsing is
// regex-driven, DESIGN §5 C17): over the body alphabet {u,p,CR,LF,space} only "up" is an action (checked against the real parser).
func zzM_parseSingleActionList(str string) ([]*action, error) {
	if len(str) == 0 {
		return []*action{}, nil
	}
	if str == "up" {
		return []*action{{t: actUp}}, nil
	}
	return nil, errors.New("unknown action: " + str)
}

// zzConn delivers a byte stream in pieces: it is cut at the given offsets (ascending), each Read
// returns the bytes up to the next cut.
type zzConn struct {
	data    []byte
	pos     int
	cuts    []int
	written []byte
}

func (c *zzConn) Read(p []byte) (int, error) {
	rest := len(c.data) - c.pos
	if rest == 0 {
		return 0, io.EOF
	}
	n := rest
	for _, cut := range c.cuts {
		if cut > c.pos && cut-c.pos < n {
			n = cut - c.pos
		}
	}
	if n > len(p) {
		n = len(p)
	}
	copy(p, c.data[c.pos:c.pos+n])
	c.pos += n
	return n, nil
}

// zzCuts chooses up to k cut offsets for a request among the places where framing matters: inside
// each line, between its CR and LF, right after it, after the first byte and before the last one.
func zzCuts(req string, k int) []int {
	cand := []int{1}
	start := 0
	for i := 0; i+1 < len(req); i++ {
		if req[i] == '\r' && req[i+1] == '\n' {
			if mid := (start + i) / 2; mid > start {
				cand = append(cand, mid)
			}
			cand = append(cand, i+1, i+2)
			start = i + 2
		}
	}
	if len(req) > 1 {
		cand = append(cand, len(req)-1)
	}
	var cuts []int
	from := 0
	for c := 0; c < k; c++ {
		j := zzv.Choose(from, len(cand))
		if j == len(cand) {
			break
		}
		cuts = append(cuts, cand[j])
		from = j + 1
	}
	return cuts
}

func (c *zzConn) Write(p []byte) (int, error) {
	c.written = append(c.written, p...)
	return len(p), nil
}
func (c *zzConn) Close() error                       { return nil }
func (c *zzConn) LocalAddr() net.Addr                { return nil }
func (c *zzConn) RemoteAddr() net.Addr               { return nil }
func (c *zzConn) SetDeadline(t time.Time) error      { return nil }
func (c *zzConn) SetReadDeadline(t time.Time) error  { return nil }
func (c *zzConn) SetWriteDeadline(t time.Time) error { return nil }

// H16: authorisation, framing and side effects of handleHttpRequest.
func zzH_C16_http() {
	serverKey := zzv.CfgStr("key")
	handlerCalls := 0
	ch := make(chan []*action, 4)
	server := &httpServer{apiKey: []byte(serverKey), actionChannel: ch,
		getHandler: func(getParams) string { handlerCalls++; return `{"state":1}` }}

	// request assembled from tokens with symbolic parts
	req := ""
	method := zzv.Choose(0, 3)
	switch method {
	case 0:
		req += "GET / HTTP/1.1\r\n"
	case 1:
		req += "GET /?limit=1 HTTP/1.1\r\n"
	case 2:
		req += "POST / HTTP/1.1\r\n"
	default:
		req += "PUT / HTTP/1.1\r\n"
	}
	sentKey := ""
	hasKey := false
	clen := -1 // announced length: last content-length header
	clenValid := true
	nh := zzv.Choose(0, zzv.CfgInt("headers"))
	for h := 0; h < nh; h++ {
		switch zzv.Choose(0, 2) {
		case 0:
			d := zzv.Below(10)
			req += "Content-Length: " + string([]byte{byte('0' + d)}) + "\r\n"
			clen = d
			if d == 0 {
				clenValid = false // rejected on the spot
			}
		case 1:
			name := "x-api-key"
			if zzv.Bool() {
				name = "X-Api-Key"
			}
			k := []byte{"k1x"[zzv.Below(3)], "k1x"[zzv.Below(3)]}
			req += name + ": " + string(k) + "\r\n"
			sentKey, hasKey = string(k), true
		default:
			req += "Host: a\r\n"
		}
	}
	complete := zzv.Bool()
	body := ""
	if complete {
		req += "\r\n"
		nb := zzv.Choose(0, zzv.CfgInt("body"))
		bb := make([]byte, nb)
		for i := range bb {
			bb[i] = "up\r\n "[zzv.Below(5)]
		}
		body = string(bb)
		req += body
	}
	conn := &zzConn{data: []byte(req), cuts: zzCuts(req, zzv.CfgInt("cuts"))}
	resp := server.handleHttpRequest(conn)
	zzv.Reach("answered")
	zzv.Observe("resplen", len(resp))
	delivered := len(ch)
	zzv.Observe("delivered", delivered)
	zzv.Observe("handler", handlerCalls)

	zzv.Assert("well-formed-answer", strings.HasPrefix(resp, "HTTP/1.1 "))
	authorised := len(serverKey) == 0 || (hasKey && sentKey == serverKey)
	if !authorised {
		zzv.Assert("no-action-without-key", delivered == 0)
		zzv.Assert("no-state-without-key", handlerCalls == 0)
	}
	if method != 2 {
		zzv.Assert("only-post-delivers-actions", delivered == 0)
	}
	if method > 1 {
		zzv.Assert("get-handler-only-for-get", handlerCalls == 0)
	}
	if delivered > 0 {
		zzv.Reach("opt:delivered")
		// a delivered action list needs a complete, well-framed, authorised POST
		ok := method == 2 && authorised && complete && clen >= 1 && clenValid && len(body) >= clen
		if ok {
			acts := <-ch
			want, err := zzM_parseSingleActionList(strings.Trim(body[:clen], "\r\n"))
			ok = err == nil && len(want) == len(acts) && len(acts) > 0
		}
		zzv.Assert("delivery-needs-valid-request", ok)
	}
	// a well-formed, authorised GET is answered with the state however the bytes are cut into reads
	// (a GET that announces "Content-Length: 0" is turned down as "invalid content length": strict, harmless, not asserted either way)
	if method <= 1 && authorised && complete && clenValid {
		zzv.Assert("valid-get-answered-under-any-framing", handlerCalls == 1 && strings.HasPrefix(resp, "HTTP/1.1 200"))
	}
	// a well-formed, authorised POST is executed however the bytes are cut into reads: the parsed
	// action list reaches the channel and the answer is 200
	if method == 2 && authorised && complete && clenValid && clen >= 1 && len(body) >= clen {
		if want, err := zzM_parseSingleActionList(strings.Trim(body[:clen], "\r\n")); err == nil && len(want) > 0 {
			zzv.Assert("valid-post-executed-under-any-framing", delivered == 1 && strings.HasPrefix(resp, "HTTP/1.1 200"))
		}
	}
	if method == 2 && authorised && complete && clenValid && clen >= 1 && len(body) < clen {
		zzv.Assert("incomplete-body-rejected", strings.HasPrefix(resp, "HTTP/1.1 400") && delivered == 0)
	}
}


// --- startHttpServer -------------------------------------------------------------------------

// In the engine net.Listen is replaced by zzMX_net_Listen: the listener hands out one scripted
// connection and then reports that it is closed, and the accept loop (a goroutine in the real
// code) runs inline. Natively the real net.Listen binds a loopback port and the harness talks to
// it over TCP.
type zzAddr string

func (a zzAddr) Network() string { return "tcp" }
func (a zzAddr) String() string  { return string(a) }

type zzListener struct {
	conn     *zzConn
	accepted int
}

func (l *zzListener) Accept() (net.Conn, error) {
	l.accepted++
	if l.accepted == 1 {
		return l.conn, nil
	}
	return nil, net.ErrClosed
}
func (l *zzListener) Close() error   { return nil }
func (l *zzListener) Addr() net.Addr { return zzAddr("127.0.0.1:6266") }

var zzTheListener *zzListener
var zzListenCalls int

func zzMX_net_Listen(network, address string) (net.Listener, error) {
	zzListenCalls++
	return zzTheListener, nil
}

// zzExchange: the answer to the request (modelled listener: what the accept loop wrote to the
// scripted connection; real listener: over TCP).
func zzExchange(l net.Listener, req string) string {
	if m, ok := l.(*zzListener); ok {
		return string(m.conn.written)
	}
	c, err := net.Dial("tcp", l.Addr().String())
	if err != nil {
		return "dial: " + err.Error()
	}
	defer c.Close()
	c.SetDeadline(time.Now().Add(5 * time.Second))
	c.Write([]byte(req))
	out, _ := io.ReadAll(c)
	return string(out)
}

// H16.start: a non-local listener refuses to start without a key, and the key the server enforces
// is exactly the configured one.
func zzH_C16_start() {
	key := zzv.CfgStr("env:FZF_API_KEY")
	os.Setenv("FZF_API_KEY", key)
	host := []string{"localhost", "127.0.0.1", "0.0.0.0", ""}[zzv.Choose(0, 3)]
	local := host == "localhost" || host == "127.0.0.1"
	ch := make(chan []*action, 4)
	handlerCalls := 0
	sent, hasKey := "", true
	switch zzv.Choose(0, 3) {
	case 0:
		hasKey = false
	case 1:
		sent = key
	case 2:
		sent = strings.TrimSpace(key)
	default:
		sent = "k1x"
	}
	req := "POST / HTTP/1.1\r\n"
	if hasKey {
		req += "X-API-Key: " + sent + "\r\n"
	}
	req += "Content-Length: 2\r\n\r\nup"
	zzTheListener = &zzListener{conn: &zzConn{data: []byte(req)}} // delivered in one piece, as one TCP segment is
	zzListenCalls = 0
	l, port, err := startHttpServer(listenAddress{host, 0}, ch, func(getParams) string { handlerCalls++; return "{}" })
	zzv.Reach("started")
	if !local && len(key) == 0 {
		zzv.Assert("remote-listener-refused-without-key", err != nil && l == nil && zzListenCalls == 0)
		return
	}
	zzv.Assert("listener-starts", err == nil && l != nil && port > 0)
	if err != nil || l == nil {
		return
	}
	resp := zzExchange(l, req)
	l.Close()
	delivered := len(ch)
	zzv.Observe("delivered", delivered)
	zzv.Assert("well-formed-answer", strings.HasPrefix(resp, "HTTP/1.1 "))
	// header values are compared without surrounding blanks, the configured key is taken as it is
	authorised := len(key) == 0 || hasKey && strings.TrimSpace(sent) == key
	if !authorised {
		zzv.Assert("no-action-without-key", delivered == 0 && strings.HasPrefix(resp, "HTTP/1.1 401"))
	} else {
		zzv.Assert("action-accepted-with-the-key", delivered == 1 && strings.HasPrefix(resp, "HTTP/1.1 200"))
	}
	zzv.Assert("post-reveals-no-state", handlerCalls == 0)
}


// H16.addr: --listen address parsing: [HOST:]PORT, port 0..65535, host defaults to localhost.
func zzH_C16_addr() {
	alpha := []byte{'1', '6', '9', '-', ':', 'h', '+'}
	n := zzv.Choose(0, zzv.CfgInt("nmax"))
	b := make([]byte, n)
	for i := range b {
		b[i] = alpha[zzv.Below(len(alpha))]
	}
	addr, err := parseListenAddress(string(b))
	zzv.Reach("parsed")
	// reference
	colons, first := 0, -1
	for i, c := range b {
		if c == ':' {
			colons++
			if first < 0 {
				first = i
			}
		}
	}
	host, ps := "localhost", b
	if colons == 1 {
		if first > 0 {
			host = string(b[:first])
		}
		ps = b[first+1:]
	}
	valid := colons <= 1 && len(ps) > 0
	port, neg := 0, false
	for i, c := range ps {
		switch {
		case i == 0 && (c == '-' || c == '+') && len(ps) > 1:
			neg = c == '-'
		case c >= '0' && c <= '9':
			port = port*10 + int(c-'0')
		default:
			valid = false
		}
	}
	if neg && port > 0 || port > 65535 {
		valid = false
	}
	if !valid {
		zzv.Assert("invalid-listen-address-rejected", err != nil)
		return
	}
	zzv.Assert("valid-listen-address-accepted", err == nil)
	zzv.Assert("listen-address-as-written", addr.host == host && addr.port == port)
	zzv.Assert("only-loopback-names-are-local", addr.IsLocal() == (host == "localhost" || host == "127.0.0.1"))
}

func init() {
	zzHarnesses["zzH_C16_status"] = zzH_C16_status
}

// In the engine encoding/json.Marshal (reflection) is replaced by a capture of the value; natively
// the real encoder runs and the harness decodes its output again.
var zzLastStatus *Status

func zzMX_json_Marshal(v any) ([]byte, error) {
	if st, ok := v.(*Status); ok {
		zzLastStatus = st
	}
	return []byte("{}"), nil
}

// H16.status: the GET handler of the real terminal (dumpStatus) for every non-negative limit and
// offset the request line can carry: never a crash, and the window of matches / selections asked for.
func zzH_C16_status() {
	n := zzv.Choose(0, 3)
	items := zzItems(n)
	t := &Terminal{merger: zzMergerOf(items), multi: 3, selected: make(map[int32]selectedItem)}
	nsel := 0
	for _, it := range items {
		if zzv.Bool() {
			t.selectItem(it)
			nsel++
		}
	}
	limit := zzv.Int()
	offset := zzv.Int()
	zzv.Assume(limit >= 0 && offset >= 0) // the request line admits digits only
	zzLastStatus = nil
	out := t.dumpStatus(getParams{limit: limit, offset: offset})
	zzv.Reach("answered")
	st := zzLastStatus
	if st == nil {
		st = &Status{}
		if err := json.Unmarshal([]byte(out), st); err != nil {
			zzv.Assert("opt:status-is-json", false)
			return
		}
	}
	want := func(total int) int {
		if offset >= total {
			return 0
		}
		k := total - offset
		if limit < k {
			k = limit
		}
		return k
	}
	zzv.Assert("status-window-of-matches", len(st.Matches) == want(n) && st.MatchCount == n)
	zzv.Assert("status-window-of-selections", len(st.Selected) == want(nsel))
	for i := range st.Matches {
		zzv.Assert("status-matches-in-list-order", st.Matches[i].Index == int(items[i+offset].Index()))
	}
}
