package fzf

import (
	"errors"
	"io"
	"net"
	"strings"
	"time"

	"github.com/junegunn/fzf/src/zzv"
)

func init() {
	zzHarnesses["zzH_C16_http"] = zzH_C16_http
}

// zzM_parseSingleActionList replaces parseSingleActionList inside the engine (action parsing is
// regex-driven, DESIGN §5 C17): over the body alphabet {u,p,CR,LF,space} only "up" is an action (checked against the real parser).
func zzM_parseSingleActionList(str string) ([]*action, error) {
	if len(str) == 0 {
		return []*action{}, nil
	}
	if str == "up" {
		return []*action{{t: actUp}}, nil
	}
	return nil, errors.New("unknown action: " + str)
}

// zzConn delivers a byte stream in nondeterministic increments.
type zzConn struct {
	data     []byte
	pos      int
	maxChunk int
}

func (c *zzConn) Read(p []byte) (int, error) {
	rest := len(c.data) - c.pos
	if rest == 0 {
		return 0, io.EOF
	}
	n := rest
	if zzv.Bool() {
		n = 1 + zzv.Below(c.maxChunk)
		if n > rest {
			n = rest
		}
	}
	if n > len(p) {
		n = len(p)
	}
	copy(p, c.data[c.pos:c.pos+n])
	c.pos += n
	return n, nil
}
func (c *zzConn) Write(p []byte) (int, error)        { return len(p), nil }
func (c *zzConn) Close() error                       { return nil }
func (c *zzConn) LocalAddr() net.Addr                { return nil }
func (c *zzConn) RemoteAddr() net.Addr               { return nil }
func (c *zzConn) SetDeadline(t time.Time) error      { return nil }
func (c *zzConn) SetReadDeadline(t time.Time) error  { return nil }
func (c *zzConn) SetWriteDeadline(t time.Time) error { return nil }

// H16: authorisation, framing and side effects of handleHttpRequest.
func zzH_C16_http() {
	serverKey := zzv.CfgStr("key")
	handlerCalls := 0
	ch := make(chan []*action, 4)
	server := &httpServer{apiKey: []byte(serverKey), actionChannel: ch,
		getHandler: func(getParams) string { handlerCalls++; return `{"state":1}` }}

	// request assembled from tokens with symbolic parts
	req := ""
	method := zzv.Choose(0, 3)
	switch method {
	case 0:
		req += "GET / HTTP/1.1\r\n"
	case 1:
		req += "GET /?limit=1 HTTP/1.1\r\n"
	case 2:
		req += "POST / HTTP/1.1\r\n"
	default:
		req += "PUT / HTTP/1.1\r\n"
	}
	sentKey := ""
	hasKey := false
	clen := -1 // announced length: last content-length header
	clenValid := true
	nh := zzv.Choose(0, zzv.CfgInt("headers"))
	for h := 0; h < nh; h++ {
		switch zzv.Choose(0, 2) {
		case 0:
			d := zzv.Below(10)
			req += "Content-Length: " + string([]byte{byte('0' + d)}) + "\r\n"
			clen = d
			if d == 0 {
				clenValid = false // rejected on the spot
			}
		case 1:
			name := "x-api-key"
			if zzv.Bool() {
				name = "X-Api-Key"
			}
			k := []byte{"k1x"[zzv.Below(3)], "k1x"[zzv.Below(3)]}
			req += name + ": " + string(k) + "\r\n"
			sentKey, hasKey = string(k), true
		default:
			req += "Host: a\r\n"
		}
	}
	complete := zzv.Bool()
	body := ""
	if complete {
		req += "\r\n"
		nb := zzv.Choose(0, zzv.CfgInt("body"))
		bb := make([]byte, nb)
		for i := range bb {
			bb[i] = "up\r\n "[zzv.Below(5)]
		}
		body = string(bb)
		req += body
	}
	conn := &zzConn{data: []byte(req), maxChunk: zzv.CfgInt("chunk")}
	resp := server.handleHttpRequest(conn)
	zzv.Reach("answered")
	zzv.Observe("resplen", len(resp))
	delivered := len(ch)
	zzv.Observe("delivered", delivered)
	zzv.Observe("handler", handlerCalls)

	zzv.Assert("well-formed-answer", strings.HasPrefix(resp, "HTTP/1.1 "))
	authorised := len(serverKey) == 0 || (hasKey && sentKey == serverKey)
	if !authorised {
		zzv.Assert("no-action-without-key", delivered == 0)
		zzv.Assert("no-state-without-key", handlerCalls == 0)
	}
	if method != 2 {
		zzv.Assert("only-post-delivers-actions", delivered == 0)
	}
	if method > 1 {
		zzv.Assert("get-handler-only-for-get", handlerCalls == 0)
	}
	if delivered > 0 {
		zzv.Reach("opt:delivered")
		// a delivered action list needs a complete, well-framed, authorised POST
		ok := method == 2 && authorised && complete && clen >= 1 && clenValid && len(body) >= clen
		if ok {
			acts := <-ch
			want, err := zzM_parseSingleActionList(strings.Trim(body[:clen], "\r\n"))
			ok = err == nil && len(want) == len(acts) && len(acts) > 0
		}
		zzv.Assert("delivery-needs-valid-request", ok)
	}
	if method == 2 && authorised && complete && clenValid && clen >= 1 && len(body) < clen {
		zzv.Assert("incomplete-body-rejected", strings.HasPrefix(resp, "HTTP/1.1 400") && delivered == 0)
	}
}
