package fzf

import (
	"github.com/junegunn/fzf/src/tui"
	"github.com/junegunn/fzf/src/util"
	"github.com/junegunn/fzf/src/zzv"
)

func init() {
	zzHarnesses["zzH_C09_edit"] = zzH_C09_edit
	zzHarnesses["zzH_C09_acts"] = zzH_C09_acts
}

// a list window of a given height; every other method of the interface is absent on purpose
// (a call would be a nil dereference and show up as a panic obligation)
type zzWindow struct {
	tui.Window
	h int
}

func (w zzWindow) Height() int { return w.h }

// zzDispatcher builds the action dispatcher of Terminal.Loop (doAction, lifted verbatim from the
// current source together with the `toggle` helper it uses) around a hand-made Terminal. The
// environment is filled by name; nil when the closure's environment no longer has these variables.
func zzDispatcher(t *Terminal, eventChar rune) (func(*action) bool, *[]util.EventType) {
	events := &[]util.EventType{}
	req := func(evts ...util.EventType) { *events = append(*events, evts...) }
	tenv := &zzEnv_toggle{}
	if !(tenv.zzSet("t", t) && tenv.zzSet("req", req)) {
		return nil, nil
	}
	env := &zzEnv_doAction{}
	ok := env.zzSet("t", t) && env.zzSet("req", req) && env.zzSet("toggle", zzLift_toggle(tenv)) &&
		env.zzSet("event", tui.Event{Type: tui.Rune, Char: eventChar})
	if !ok {
		return nil, nil
	}
	do := zzLift_doAction(env)
	if !env.zzSet("doAction", do) {
		return nil, nil
	}
	return do, events
}

func zzRunesEq(a, b []rune) bool {
	if len(a) != len(b) {
		return false
	}
	for i := range a {
		if a[i] != b[i] {
			return false
		}
	}
	return true
}

func zzIsWordRune(r rune) bool {
	return r >= 'a' && r <= 'z' || r >= '0' && r <= '9' || r == 0xe9 // the letters and digits of the harness alphabets
}

// the reference editor: every operation builds fresh slices
type zzEditor struct {
	q    []rune
	cx   int
	kill []rune
}

func (e *zzEditor) splice(from, to int, ins []rune) {
	n := make([]rune, 0, len(e.q)+len(ins))
	n = append(n, e.q[:from]...)
	n = append(n, ins...)
	n = append(n, e.q[to:]...)
	e.q = n
}

func (e *zzEditor) cut(from, to int) {
	k := make([]rune, to-from)
	copy(k, e.q[from:to])
	e.kill = k
	e.splice(from, to, nil)
}

func (e *zzEditor) wordBack(isWord func(rune) bool) int {
	i := e.cx
	for i > 0 && !isWord(e.q[i-1]) {
		i--
	}
	for i > 0 && isWord(e.q[i-1]) {
		i--
	}
	return i
}

func (e *zzEditor) wordFwd() int {
	i := e.cx
	for i < len(e.q) && !zzIsWordRune(e.q[i]) {
		i++
	}
	for i < len(e.q) && zzIsWordRune(e.q[i]) {
		i++
	}
	return i
}

var zzEditActions = []actionType{
	actBackwardChar, actForwardChar, actBeginningOfLine, actEndOfLine,
	actBackwardDeleteChar, actDeleteChar, actKillLine, actUnixLineDiscard, actYank,
	actPut, actChar, actClearQuery, actChangeQuery, actCancel, actBackwardDeleteCharEof, actDeleteCharEof,
	// word-wise actions (decided by regular expressions: concrete alphabets only)
	actBackwardWord, actForwardWord, actBackwardKillWord, actKillWord, actUnixWordRubout,
}

// H9.edit: the query line under sequences of editing actions dispatched by doAction is what a
// readline-style editor holds (text, cursor, and the kill buffer as far as yank reveals it).
func zzH_C09_edit() {
	words := zzv.CfgBool("words")
	n := zzv.Choose(0, zzv.CfgInt("nmax"))
	q := make([]rune, n)
	alpha := []rune{'a', ' ', '-', 0xe9}
	for i := range q {
		if words {
			q[i] = alpha[zzv.Choose(0, len(alpha)-1)]
		} else {
			q[i] = rune(zzv.Byte7())
		}
	}
	cx := zzv.Choose(0, n)
	t := &Terminal{input: append([]rune{}, q...), cx: cx, yanked: []rune{},
		wordRubout: "[^\\pL\\pN][\\pL\\pN]", wordNext: "[\\pL\\pN][^\\pL\\pN]|(.$)"}
	do, events := zzDispatcher(t, 'z')
	if do == nil {
		return
	}
	ed := &zzEditor{q: append([]rune{}, q...), cx: cx, kill: []rune{}}
	nacts := 16
	if words {
		nacts = len(zzEditActions)
	}
	steps := zzv.CfgInt("steps")
	killKnown := true // what `cancel` leaves in the kill buffer is not documented
	for s := 0; s < steps; s++ {
		at := zzEditActions[zzv.Choose(0, nacts-1)]
		a := &action{t: at}
		quit := false
		switch at {
		case actBackwardChar:
			if ed.cx > 0 {
				ed.cx--
			}
		case actForwardChar:
			if ed.cx < len(ed.q) {
				ed.cx++
			}
		case actBeginningOfLine:
			ed.cx = 0
		case actEndOfLine:
			ed.cx = len(ed.q)
		case actBackwardDeleteChar:
			if ed.cx > 0 {
				ed.splice(ed.cx-1, ed.cx, nil)
				ed.cx--
			}
		case actBackwardDeleteCharEof:
			if len(ed.q) == 0 {
				quit = true
			} else if ed.cx > 0 {
				ed.splice(ed.cx-1, ed.cx, nil)
				ed.cx--
			}
		case actDeleteChar:
			if ed.cx < len(ed.q) {
				ed.splice(ed.cx, ed.cx+1, nil)
			}
		case actDeleteCharEof:
			if ed.cx < len(ed.q) {
				ed.splice(ed.cx, ed.cx+1, nil)
			} else if ed.cx == 0 {
				quit = true
			}
		case actKillLine:
			if ed.cx < len(ed.q) {
				ed.cut(ed.cx, len(ed.q))
				killKnown = true
			}
		case actUnixLineDiscard:
			if ed.cx > 0 {
				ed.cut(0, ed.cx)
				ed.cx = 0
				killKnown = true
			}
		case actYank:
			if !killKnown {
				return
			}
			k := ed.kill
			ed.splice(ed.cx, ed.cx, k)
			ed.cx += len(k)
		case actPut:
			a.a = "x"
			ed.splice(ed.cx, ed.cx, []rune{'x'})
			ed.cx++
		case actChar:
			ed.splice(ed.cx, ed.cx, []rune{'z'})
			ed.cx++
		case actClearQuery:
			ed.q, ed.cx = []rune{}, 0
		case actChangeQuery:
			a.a = "q-"
			ed.q, ed.cx = []rune{'q', '-'}, 2
		case actCancel:
			if len(ed.q) == 0 {
				quit = true
			} else {
				killKnown = false
				ed.q, ed.cx = []rune{}, 0
			}
		case actBackwardWord:
			ed.cx = ed.wordBack(zzIsWordRune)
		case actForwardWord:
			ed.cx = ed.wordFwd()
		case actBackwardKillWord:
			if ed.cx > 0 {
				from := ed.wordBack(zzIsWordRune)
				to := ed.cx
				ed.cut(from, to)
				ed.cx = from
			}
		case actKillWord:
			if to := ed.wordFwd(); to > ed.cx {
				ed.cut(ed.cx, to)
			}
		case actUnixWordRubout:
			if ed.cx > 0 {
				from := ed.wordBack(func(r rune) bool { return r != ' ' })
				to := ed.cx
				ed.cut(from, to)
				ed.cx = from
			}
		}
		*events = (*events)[:0]
		ok := do(a)
		zzv.Reach("dispatched")
		zzv.Assert("action-completes", ok)
		zzv.Assert("query-as-readline-editor", zzRunesEq(t.input, ed.q))
		zzv.Assert("cursor-as-readline-editor", t.cx == ed.cx)
		zzv.Assert("cursor-within-query", t.cx >= 0 && t.cx <= len(t.input))
		asked := false
		for _, e := range *events {
			if e == reqQuit {
				asked = true
			}
		}
		zzv.Assert("quits-only-on-empty-query", asked == quit)
		if quit {
			return
		}
	}
	zzv.Observe("qlen", len(t.input))
	zzv.Observe("cx", t.cx)
}

var zzListActions = []actionType{
	actToggle, actToggleAll, actSelectAll, actDeselectAll, actSelect, actDeselect, actClearSelection,
	actToggleDown, actToggleUp, actToggleIn, actToggleOut,
	actUp, actDown, actFirst, actLast, actPosition, actPageUp, actPageDown, actHalfPageUp, actHalfPageDown,
}

// H9.acts: list cursor and selection under sequences of navigation and selection actions
// dispatched by doAction.
func zzH_C09_acts() {
	total := zzv.CfgInt("items")
	all := zzItems(total)
	// the current results: a subsequence of the loaded items (the others are filtered out)
	var shown []*Item
	for _, it := range all {
		if zzv.Bool() {
			shown = append(shown, it)
		}
	}
	n := len(shown)
	multi := zzv.Choose(0, zzv.CfgInt("multimax"))
	t := &Terminal{merger: zzMergerOf(shown), multi: multi, selected: make(map[int32]selectedItem),
		cycle: zzv.CfgBool("cycle"), window: zzWindow{h: zzv.CfgInt("height")}, inputless: true}
	if zzv.CfgBool("reverse") {
		t.layout = layoutReverse
	}
	in := make([]bool, total)
	count := 0
	if multi > 0 {
		for i, it := range all {
			if count < multi && zzv.Bool() {
				t.selectItem(it)
				in[i] = true
				count++
			}
		}
	}
	cy := 0
	if n > 0 {
		cy = zzv.Choose(0, n-1)
	}
	t.cy = cy
	t.constrain()
	do, _ := zzDispatcher(t, 'z')
	if do == nil {
		return
	}
	maxItems := t.maxItems()
	idx := func(k int) int { return int(shown[k].Index()) }
	sel := func(k int) bool { // reference: select the k-th result, false when the limit refuses
		if in[idx(k)] {
			return true
		}
		if count >= multi {
			return false
		}
		in[idx(k)] = true
		count++
		return true
	}
	desel := func(k int) {
		if in[idx(k)] {
			in[idx(k)] = false
			count--
		}
	}
	move := func(o int, cycle bool) { // o in "up is +1" terms of the default layout
		if t.layout != layoutDefault {
			o = -o
		}
		if n == 0 {
			return
		}
		dest := cy + o
		if dest > n-1 {
			if t.cycle && cycle && cy == n-1 {
				dest = 0
			} else {
				dest = n - 1
			}
		} else if dest < 0 {
			if t.cycle && cycle && cy == 0 {
				dest = n - 1
			} else {
				dest = 0
			}
		}
		cy = dest
	}
	toggleCur := func() bool {
		if multi == 0 || n == 0 {
			return false
		}
		if in[idx(cy)] {
			desel(cy)
			return true
		}
		return sel(cy)
	}
	steps := zzv.CfgInt("steps")
	for s := 0; s < steps; s++ {
		at := zzListActions[zzv.Choose(0, len(zzListActions)-1)]
		a := &action{t: at}
		constrained := false
		paged, pageDir, cyBefore := false, 0, cy
		switch at {
		case actToggle:
			toggleCur()
		case actToggleAll:
			if multi > 0 {
				was := make([]bool, n)
				for k := 0; k < n; k++ {
					was[k] = in[idx(k)]
					if was[k] {
						desel(k)
					}
				}
				for k := 0; k < n; k++ {
					if !was[k] && !sel(k) {
						break
					}
				}
			}
		case actSelectAll:
			if multi > 0 {
				for k := 0; k < n; k++ {
					if !sel(k) {
						break
					}
				}
			}
		case actDeselectAll:
			if multi > 0 {
				for k := 0; k < n; k++ {
					desel(k)
				}
			}
		case actClearSelection:
			if multi > 0 {
				for i := range in {
					in[i] = false
				}
				count = 0
			}
		case actSelect:
			if multi > 0 && n > 0 {
				sel(cy)
			}
		case actDeselect:
			if multi > 0 && n > 0 {
				desel(cy)
			}
		case actToggleDown:
			if toggleCur() {
				move(-1, true)
			}
		case actToggleUp:
			if toggleCur() {
				move(1, true)
			}
		case actToggleIn: // towards the prompt
			if toggleCur() {
				if t.layout != layoutDefault {
					move(1, true)
				} else {
					move(-1, true)
				}
			}
		case actToggleOut:
			if toggleCur() {
				if t.layout != layoutDefault {
					move(-1, true)
				} else {
					move(1, true)
				}
			}
		case actUp:
			move(1, true)
		case actDown:
			move(-1, true)
		case actFirst:
			cy = 0
			constrained = true
		case actLast:
			if n > 0 {
				cy = n - 1
			}
			constrained = true
		case actPosition:
			p := []int{-2, -1, 1, 2, 3}[zzv.Choose(0, 4)] // pos(0) is not documented
			a.a = []string{"-2", "-1", "", "1", "2", "3"}[p+2]
			k := p
			if p > 0 {
				k = p - 1
			} else if p < 0 {
				k = p + n
			}
			if n > 0 {
				if k < 0 {
					k = 0
				}
				if k > n-1 {
					k = n - 1
				}
				cy = k
			}
			constrained = true
		case actPageUp, actPageDown, actHalfPageUp, actHalfPageDown:
			// how far a page moves is not documented: at least one line, at most a window, in the
			// direction of the action, stopping at the ends (never wrapping)
			paged = true
			pageDir = 1
			if at == actPageDown || at == actHalfPageDown {
				pageDir = -1
			}
			if t.layout != layoutDefault {
				pageDir = -pageDir
			}
		}
		ok := do(a)
		zzv.Reach("dispatched")
		zzv.Assert("action-completes", ok)
		if n == 0 {
			zzv.Assert("empty-list-no-current-item", t.currentItem() == nil)
		} else {
			zzv.Assert("cursor-designates-existing-result", t.cy >= 0 && t.cy < n && t.currentItem() == shown[t.cy])
			if paged {
				d := (t.cy - cyBefore) * pageDir
				limit := maxItems
				if limit < 1 {
					limit = 1
				}
				atEnd := pageDir > 0 && t.cy == n-1 || pageDir < 0 && t.cy == 0
				zzv.Assert("page-moves-one-line-to-one-window-towards-its-end", d >= 0 && d <= limit && (d >= 1 || atEnd))
				cy = t.cy
			} else {
				zzv.Assert("cursor-moves-as-prescribed", t.cy == cy)
			}
		}
		if constrained && n > 0 && maxItems > 0 {
			zzv.Assert("cursor-inside-the-visible-window", t.offset >= 0 && t.cy >= t.offset && t.cy < t.offset+maxItems)
		}
		same := len(t.selected) == count
		for i, it := range all {
			if _, found := t.selected[it.Index()]; found != in[i] {
				same = false
			}
		}
		zzv.Assert("selection-as-multi-select-rules", same)
		zzv.Assert("never-more-than-the-limit", len(t.selected) <= multi)
	}
	zzv.Observe("cy", t.cy)
	zzv.Observe("nsel", len(t.selected))
}
