package fzf

import (
	"regexp"

	"github.com/junegunn/fzf/src/algo"
	"github.com/junegunn/fzf/src/util"
	"github.com/junegunn/fzf/src/zzv"
)

func init() {
	zzHarnesses["zzH_C10_awk"] = zzH_C10_awk
	zzHarnesses["zzH_C10_str"] = zzH_C10_str
	zzHarnesses["zzH_C10_range"] = zzH_C10_range
	zzHarnesses["zzH_C10_transform"] = zzH_C10_transform
}

var zzTokAlphabet = []rune{'a', ' ', '\t', 'é', '한', ',', 'b'}

// zzLine builds a line: kind 0 = ASCII bytes, kind 1 = runes from zzTokAlphabet (UTF-8 encoded).
func zzLine(n int, kind int) (string, []rune) {
	rs := make([]rune, n)
	for i := range rs {
		if kind == 0 {
			rs[i] = rune(zzv.Byte7())
		} else {
			rs[i] = zzTokAlphabet[zzv.Below(len(zzTokAlphabet))]
		}
	}
	return string(rs), rs
}

func zzTokRunes(t Token) []rune { return t.text.ToRunes() }

// zzCheckPartition: tokens concatenated give back runes[lead:], each token starts at its prefixLength.
func zzCheckPartition(tokens []Token, runes []rune, lead int) bool {
	ok := true
	at := lead
	for _, t := range tokens {
		if int(t.prefixLength) != at {
			ok = false
		}
		tr := zzTokRunes(t)
		for k, r := range tr {
			if at+k >= len(runes) || runes[at+k] != r {
				ok = false
			}
		}
		at += len(tr)
	}
	return ok && at == len(runes)
}

// H10.awk: default (AWK-style) field splitting.
func zzH_C10_awk() {
	n := zzv.Choose(zzv.CfgInt("nmin"), zzv.CfgInt("nmax"))
	line, runes := zzLine(n, zzv.CfgInt("kind"))
	tokens := Tokenize(line, Delimiter{})
	zzv.Reach("called")
	zzv.Observe("ntok", len(tokens))
	isBlank := func(r rune) bool { return r == ' ' || r == '\t' }
	lead := 0
	for lead < len(runes) && isBlank(runes[lead]) {
		lead++
	}
	// expected field starts: a non-blank character preceded by a blank (or the start)
	nstarts := 0
	for i, r := range runes {
		if !isBlank(r) && (i == 0 || isBlank(runes[i-1])) {
			nstarts++
		}
	}
	zzv.Assert("field-count", len(tokens) == nstarts)
	zzv.Assert("partition", zzCheckPartition(tokens, runes, lead))
	shape := true
	for _, t := range tokens {
		tr := zzTokRunes(t)
		if len(tr) == 0 || isBlank(tr[0]) {
			shape = false
		}
		// non-blank run followed by blank run
		seenBlank := false
		for _, r := range tr {
			if isBlank(r) {
				seenBlank = true
			} else if seenBlank {
				shape = false
			}
		}
	}
	zzv.Assert("field-shape", shape)
}

// H10.str: literal string delimiter.
func zzH_C10_str() {
	n := zzv.Choose(zzv.CfgInt("nmin"), zzv.CfgInt("nmax"))
	line, runes := zzLine(n, zzv.CfgInt("kind"))
	delim := zzv.CfgStr("delim")
	tokens := Tokenize(line, Delimiter{str: &delim})
	zzv.Reach("called")
	zzv.Observe("ntok", len(tokens))
	zzv.Assert("partition", zzCheckPartition(tokens, runes, 0))
	// every field but the last ends with the delimiter and contains it nowhere else
	d := []rune(delim)
	shape := true
	for i, t := range tokens {
		tr := zzTokRunes(t)
		cnt := 0
		for k := 0; k+len(d) <= len(tr); k++ {
			m := true
			for j := range d {
				if tr[k+j] != d[j] {
					m = false
				}
			}
			if m {
				cnt++
			}
		}
		ends := len(tr) >= len(d)
		if ends {
			for j := range d {
				if tr[len(tr)-len(d)+j] != d[j] {
					ends = false
				}
			}
		}
		if i < len(tokens)-1 {
			if !ends || (len(d) == 1 && cnt != 1) {
				shape = false
			}
		} else if len(d) == 1 && cnt != 0 && !(ends && cnt == 1 && false) {
			shape = false
		}
	}
	zzv.Assert("field-shape", shape)
}

var zzRangeAlphabet = []byte{'1', '2', '0', '.', '-', 'x', '+'}

// zzRefInt: decimal integer with optional sign, as strconv.Atoi accepts for short strings.
func zzRefInt(s string) (int, bool) {
	if len(s) == 0 {
		return 0, false
	}
	neg := false
	i := 0
	if s[0] == '-' || s[0] == '+' {
		neg = s[0] == '-'
		i = 1
	}
	if i == len(s) {
		return 0, false
	}
	v := 0
	for ; i < len(s); i++ {
		if s[i] < '0' || s[i] > '9' {
			return 0, false
		}
		v = v*10 + int(s[i]-'0')
	}
	if neg {
		v = -v
	}
	return v, true
}

// zzRefRange: the documented field index expressions: N | -N | A..B | A.. | ..B | ..
// (0 is not a field; a negative begin with a positive end is rejected).
// Returns (begin, end, ok) with 0 meaning "open".
func zzRefRange(s string) (int, int, bool) {
	dots := -1
	for i := 0; i+1 < len(s); i++ {
		if s[i] == '.' && s[i+1] == '.' {
			dots = i
			break
		}
	}
	if dots < 0 {
		v, ok := zzRefInt(s)
		if !ok || v == 0 {
			return 0, 0, false
		}
		return v, v, true
	}
	l, r := s[:dots], s[dots+2:]
	a, b := 0, 0
	if len(l) > 0 {
		v, ok := zzRefInt(l)
		if !ok || v == 0 {
			return 0, 0, false
		}
		a = v
	}
	if len(r) > 0 {
		v, ok := zzRefInt(r)
		if !ok || v == 0 {
			return 0, 0, false
		}
		b = v
	}
	if a < 0 && b > 0 {
		return 0, 0, false
	}
	return a, b, true
}

// H10.range: ParseRange accepts exactly the documented expressions and yields the documented range.
func zzH_C10_range() {
	n := zzv.Choose(zzv.CfgInt("nmin"), zzv.CfgInt("nmax"))
	b := make([]byte, n)
	for i := range b {
		b[i] = zzRangeAlphabet[zzv.Below(len(zzRangeAlphabet))]
	}
	s := string(b)
	r, ok := ParseRange(&s)
	zzv.Reach("called")
	if ok {
		zzv.Observe("begin", r.begin)
		zzv.Observe("end", r.end)
	}
	ra, rb, rok := zzRefRange(s)
	zzv.Assert("accepts-documented-forms", ok == rok)
	if ok && rok {
		// the Range selects the same fields as the documented (ra, rb) for every field count
		same := true
		for nt := 0; nt <= 4; nt++ {
			for k := 1; k <= nt; k++ {
				if zzSelects(r.begin, r.end, r.begin == r.end, k, nt) != zzSelectsDoc(ra, rb, k, nt) {
					same = false
				}
			}
		}
		zzv.Assert("range-meaning", same)
	}
}

// zzSelectsDoc: does the documented expression (a,b; 0 = open) select field k of nt?
func zzSelectsDoc(a, b, k, nt int) bool {
	lo, hi := a, b
	if lo == 0 {
		lo = 1
	} else if lo < 0 {
		lo += nt + 1
	}
	if hi == 0 {
		hi = nt
	} else if hi < 0 {
		hi += nt + 1
	}
	return lo <= k && k <= hi
}

// zzSelects: reading of a Range value as Transform/--nth consumers implement it (0 = ellipsis).
func zzSelects(begin, end int, single bool, k, nt int) bool {
	if single && begin != 0 {
		idx := begin
		if idx < 0 {
			idx += nt + 1
		}
		return idx == k
	}
	return zzSelectsDoc(begin, end, k, nt)
}

var zzTokTexts = []string{"a ", "bc ", "d ", "efg "}

// H10.transform: Transform selects exactly the documented fields, in order, with the offset of the first one.
func zzH_C10_transform() {
	nt := zzv.Choose(0, zzv.CfgInt("ntmax"))
	tokens := withPrefixLengths(zzTokTexts[:nt], 1)
	form := zzv.Choose(0, 4)
	lim := zzv.CfgInt("lim")
	a := zzv.Below(2*lim+1) - lim
	b := zzv.Below(2*lim+1) - lim
	var r Range
	da, db := a, b // documented (begin,end), 0 = open
	switch form {
	case 0: // N
		zzv.Assume(a != 0)
		r = newRange(a, a)
		da, db = a, a
	case 1: // A..B
		zzv.Assume(a != 0 && b != 0 && !(a < 0 && b > 0))
		r = newRange(a, b)
	case 2: // A..
		zzv.Assume(a != 0)
		r = newRange(a, rangeEllipsis)
		db = 0
	case 3: // ..B
		zzv.Assume(b != 0)
		r = newRange(rangeEllipsis, b)
		da = 0
	default: // ..
		r = newRange(rangeEllipsis, rangeEllipsis)
		da, db = 0, 0
	}
	out := Transform(tokens, []Range{r})
	zzv.Reach("called")
	zzv.Assert("one-result", len(out) == 1)
	got := out[0].text.ToString()
	zzv.Observe("len", len(got))
	want := ""
	first := -1
	for k := 1; k <= nt; k++ {
		if zzSelectsDoc(da, db, k, nt) {
			want += zzTokTexts[k-1]
			if first < 0 {
				first = k
			}
		}
	}
	zzv.Assert("selected-fields", got == want)
	if first > 0 {
		zzv.Reach("opt:nonempty")
		zzv.Assert("offset-of-first-field", out[0].prefixLength == tokens[first-1].prefixLength)
	}
}

func init() {
	zzHarnesses["zzH_C10_nth"] = zzH_C10_nth
}

// H10.nth: with --nth a term can only match inside the selected fields, positions refer to the
// full line, and a later change of the field expression (change-nth: minor revision bump) is
// honoured for items that were already searched.
func zzH_C10_nth() {
	algo.Init("default")
	sortCriteria = []criterion{byScore, byLength}
	nf := 3
	// line: three comma-terminated fields of one symbolic character each: "x,y,z"
	fields := make([]byte, nf)
	for i := range fields {
		fields[i] = "ab"[zzv.Below(2)]
	}
	line := []byte{fields[0], ',', fields[1], ',', fields[2]}
	delim := ","
	mk := func(nth int, rev revision) *Pattern {
		return BuildPattern(NewChunkCache(), map[string]*Pattern{}, true, algo.FuzzyMatchV2, true, CaseSmart, true, true,
			true, false, []Range{newRange(nth, nth)}, Delimiter{str: &delim}, rev, []rune("a"), nil)
	}
	item := &Item{text: util.ToChars(line)}
	n1 := zzv.Choose(1, nf)
	n2 := zzv.Choose(1, nf)
	rev1 := revision{major: 1, minor: 0}
	rev2 := rev1
	if zzv.Bool() {
		rev2.bumpMinor() // change-nth / transform-nth
	} else {
		rev2.bumpMajor() // reload
	}
	r1, offs1, _ := mk(n1, rev1).MatchItem(item, true, nil)
	zzv.Reach("called")
	zzv.Assert("matches-only-in-field-1st", (r1 != nil) == (fields[n1-1] == 'a'))
	if r1 != nil {
		zzv.Assert("offset-in-full-line-1st", len(offs1) == 1 && int(offs1[0][0]) == 2*(n1-1) && int(offs1[0][1]) == 2*(n1-1)+1)
	}
	r2, offs2, _ := mk(n2, rev2).MatchItem(item, true, nil)
	zzv.Assert("matches-only-in-field-after-change", (r2 != nil) == (fields[n2-1] == 'a'))
	if r2 != nil {
		zzv.Assert("offset-in-full-line-after-change", len(offs2) == 1 && int(offs2[0][0]) == 2*(n2-1) && int(offs2[0][1]) == 2*(n2-1)+1)
	}
}

func init() {
	zzHarnesses["zzH_C10_re"] = zzH_C10_re
}

var zzReAlphabet = []rune{'a', 'é', ':', ',', '한'}

// H10.re: regular-expression delimiter. The line is built by concrete choices (every line over the
// alphabet up to the bound is explored), so Go's regexp runs natively on it; fields must partition
// the line with character (not byte) offsets, and every field but the last ends with a delimiter.
func zzH_C10_re() {
	n := zzv.Choose(0, zzv.CfgInt("nmax"))
	runes := make([]rune, n)
	for i := range runes {
		runes[i] = zzReAlphabet[zzv.Choose(0, len(zzReAlphabet)-1)]
	}
	line := string(runes)
	delim := Delimiter{regex: regexp.MustCompile(zzv.CfgStr("regex"))}
	tokens := Tokenize(line, delim)
	zzv.Reach("called")
	zzv.Observe("ntok", len(tokens))
	zzv.Assert("partition-with-character-offsets", zzCheckPartition(tokens, runes, 0))
	shape := true
	for i, t := range tokens {
		tr := zzTokRunes(t)
		if len(tr) == 0 {
			shape = false
			continue
		}
		last := tr[len(tr)-1]
		if i < len(tokens)-1 && last != ':' && last != ',' {
			shape = false
		}
	}
	zzv.Assert("fields-end-with-delimiter", shape)
	// a field range as --accept-nth / --with-nth templates print it: the fields as they are, minus the
	// delimiter that ends the last selected field
	if len(tokens) == 0 {
		return
	}
	b := zzv.Choose(1, len(tokens))
	e := zzv.Choose(b, len(tokens))
	got := StripLastDelimiter(JoinTokens(Transform(tokens, []Range{{b, e}})), delim)
	var want []rune
	for i := b - 1; i < e; i++ {
		want = append(want, zzTokRunes(tokens[i])...)
	}
	plus := len(zzv.CfgStr("regex")) > 4 // "[:,]+": a run of delimiter characters is one delimiter
	stripped := 0
	for len(want) > 0 && (want[len(want)-1] == ':' || want[len(want)-1] == ',') && (plus || stripped == 0) {
		want = want[:len(want)-1]
		stripped++
	}
	zzv.Assert("range-printed-without-its-last-delimiter", got == string(want))
}
