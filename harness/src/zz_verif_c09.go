package fzf

import (
	"time"

	"github.com/junegunn/fzf/src/tui"
	"github.com/junegunn/fzf/src/util"
	"github.com/junegunn/fzf/src/zzv"
)

func init() {
	zzHarnesses["zzH_C09_nav"] = zzH_C09_nav
	zzHarnesses["zzH_C09_sel"] = zzH_C09_sel
	zzHarnesses["zzH_C09_del"] = zzH_C09_del
	zzHarnesses["zzH_C07_output"] = zzH_C07_output
}

func zzItems(n int) []*Item {
	items := make([]*Item, n)
	for i := range items {
		items[i] = &Item{text: util.ToChars([]byte{byte('a' + i)})}
		items[i].text.Index = int32(i)
	}
	return items
}

func zzMergerOf(items []*Item) *Merger {
	list := make([]Result, len(items))
	for i, it := range items {
		list[i] = Result{item: it}
	}
	return NewMerger(nil, [][]Result{list}, false, false, revision{}, 0)
}

// H9.nav: the list cursor always designates an existing result and moves as up/down and --cycle prescribe.
func zzH_C09_nav() {
	n := zzv.Choose(0, zzv.CfgInt("nmax"))
	t := &Terminal{merger: zzMergerOf(zzItems(n)), cycle: zzv.CfgBool("cycle")}
	if zzv.CfgBool("reverse") {
		t.layout = layoutReverse
	}
	if n > 0 {
		t.cy = zzv.Below(n)
	}
	cy0 := t.cy
	lim := zzv.CfgInt("lim")
	o := zzv.Below(2*lim+1) - lim
	allowCycle := zzv.Bool()
	if zzv.Bool() {
		t.vmove(o, allowCycle)
		zzv.Reach("moved")
		step := o
		if t.layout != layoutDefault {
			step = -o
		}
		if n == 0 {
			zzv.Assert("empty-list-no-item", t.currentItem() == nil)
			return
		}
		zzv.Assert("cursor-designates-existing-result", t.cy >= 0 && t.cy < n && t.currentItem() != nil)
		want := cy0 + step
		if want > n-1 {
			if t.cycle && allowCycle && cy0 == n-1 {
				want = 0
			} else {
				want = n - 1
			}
		} else if want < 0 {
			if t.cycle && allowCycle && cy0 == 0 {
				want = n - 1
			} else {
				want = 0
			}
		}
		zzv.Assert("moves-as-prescribed", t.cy == want)
	} else {
		ok := t.vset(o)
		zzv.Reach("set")
		if n == 0 {
			zzv.Assert("empty-list-no-item", t.currentItem() == nil)
			return
		}
		zzv.Assert("cursor-designates-existing-result", t.cy >= 0 && t.cy < n)
		zzv.Assert("vset-reports-exact-hit", ok == (o >= 0 && o < n))
	}
}

// H9.sel: multi-select rules.
func zzH_C09_sel() {
	items := zzItems(4)
	multi := zzv.Choose(0, 3)
	t := &Terminal{multi: multi, selected: make(map[int32]selectedItem)}
	in := [4]bool{}
	count := 0
	steps := zzv.CfgInt("steps")
	for s := 0; s < steps; s++ {
		k := zzv.Below(4)
		it := items[k]
		was := false
		for i := range in {
			if i == k && in[i] {
				was = true
			}
		}
		switch zzv.Choose(0, 2) {
		case 0:
			ok := t.selectItem(it)
			if !was && count < multi {
				count++
				for i := range in {
					if i == k {
						in[i] = true
					}
				}
				zzv.Assert("select-adds", ok)
			} else if was && count < multi {
				zzv.Assert("select-existing-ok", ok)
			} else {
				zzv.Assert("select-refused-at-limit", !ok)
			}
		case 1:
			t.deselectItem(it)
			if was {
				count--
				for i := range in {
					if i == k {
						in[i] = false
					}
				}
			}
		case 2:
			// toggle twice = identity when the limit is not binding
			if count < multi || was {
				before := len(t.selected)
				t.toggleItem(it)
				t.toggleItem(it)
				_, now := t.selected[it.Index()]
				zzv.Assert("toggle-is-an-involution", now == was && len(t.selected) == before)
			}
		}
		zzv.Assert("never-more-than-multi", len(t.selected) <= multi && len(t.selected) == count)
		same := true
		for i := range in {
			_, f := t.selected[int32(i)]
			if f != in[i] {
				same = false
			}
		}
		zzv.Assert("selection-is-exactly-what-was-selected", same)
	}
	zzv.Reach("done")
}

// H9.del: delete-char removes exactly the character under the cursor.
func zzH_C09_del() {
	n := zzv.Choose(0, zzv.CfgInt("nmax"))
	in := make([]rune, n)
	for i := range in {
		in[i] = rune(zzv.Byte7())
	}
	keep := append([]rune{}, in...)
	t := &Terminal{input: in, cx: zzv.Choose(0, n+1)}
	cx := t.cx
	ok := t.delChar()
	zzv.Reach("called")
	if cx < n {
		good := ok && len(t.input) == n-1
		if good {
			for i := range t.input {
				src := i
				if i >= cx {
					src = i + 1
				}
				if t.input[i] != keep[src] {
					good = false
				}
			}
		}
		zzv.Assert("deletes-character-under-cursor", good)
	} else {
		zzv.Assert("nothing-to-delete", !ok && len(t.input) == n)
	}
}

// H7.output: what accept prints: query line iff --print-query, then the expect key iff --expect,
// then the print queue, then the selections in the order they were selected, else the current line.
func zzH_C07_output() {
	items := zzItems(3)
	var out []string
	t := &Terminal{multi: 3, selected: make(map[int32]selectedItem), merger: zzMergerOf(items),
		printer: func(s string) { out = append(out, s) }}
	t.printQuery = zzv.Bool()
	t.input = []rune("q")
	if zzv.Bool() {
		t.expect = map[tui.Event]string{}
		t.expect[tui.Event{}] = "x"
		t.pressed = "ctrl-x"
	}
	nq := zzv.Choose(0, 1)
	for i := 0; i < nq; i++ {
		t.printQueue = append(t.printQueue, "queued")
	}
	// a selection history: distinct items in some order
	order := []int{}
	ns := zzv.Choose(0, 3)
	used := [3]bool{}
	for i := 0; i < ns; i++ {
		k := zzv.Choose(0, 2)
		zzv.Assume(!used[k])
		used[k] = true
		order = append(order, k)
		t.selectItem(items[k])
	}
	if ns > 0 && zzv.Bool() {
		// selecting an already selected line again (as select-all does) keeps its place
		t.selectItem(items[order[0]])
	}
	t.cy = zzv.Choose(0, 2)
	found := t.output()
	zzv.Reach("called")
	want := []string{}
	if t.printQuery {
		want = append(want, "q")
	}
	if len(t.expect) > 0 {
		want = append(want, "ctrl-x")
	}
	for i := 0; i < nq; i++ {
		want = append(want, "queued")
	}
	if ns == 0 {
		want = append(want, items[t.cy].AsString(false))
	} else {
		for _, k := range order {
			want = append(want, items[k].AsString(false))
		}
	}
	zzv.Assert("prints-in-documented-order", zzSameStrings(out, want))
	zzv.Assert("reports-item-printed", found)
	_ = time.Now
}

func init() {
	zzHarnesses["zzH_C09_update"] = zzH_C09_update
}

// H9.update: selections survive a new result list of the same input, lose exactly the items that
// --tail trimmed away (minor revision: ordinals below the first loaded one), and are dropped on
// reload (major revision).
func zzH_C09_update() {
	items := zzItems(4)
	t := &Terminal{multi: 4, selected: make(map[int32]selectedItem), merger: zzMergerOf(items),
		reqBox: util.NewEventBox(), eventChan: make(chan tui.Event, 8), keymap: map[tui.Event][]*action{},
		numLinesCache: map[int32]numLinesCacheValue{}, revision: revision{major: 1, minor: 1}, reading: true}
	was := [4]bool{}
	for i := range items {
		if zzv.Bool() {
			t.selectItem(items[i])
			was[i] = true
		}
	}
	// the new list: a window [lo, lo+n) of the items
	lo := zzv.Choose(0, 2)
	n := zzv.Choose(0, 4-lo)
	list := make([]Result, n)
	for i := range list {
		list[i] = Result{item: items[lo+i]}
	}
	rev := t.revision
	kind := zzv.Choose(0, 2)
	switch kind {
	case 1:
		rev.bumpMinor()
	case 2:
		rev.bumpMajor()
	}
	mg := NewMerger(nil, [][]Result{list}, false, false, rev, int32(lo))
	t.UpdateList(mg)
	zzv.Reach("called")
	ok := true
	for i := range items {
		_, sel := t.selected[int32(i)]
		want := was[i]
		switch kind {
		case 1:
			// items before the first loaded ordinal were trimmed by --tail; the others are still loaded
			// (n is the number of *matches*, which a query can make smaller than the loaded range)
			want = was[i] && i >= lo
		case 2:
			want = false
		}
		if sel != want {
			ok = false
		}
	}
	switch kind {
	case 0:
		zzv.Assert("selection-survives-new-results", ok)
	case 1:
		zzv.Assert("selection-filtered-to-live-window", ok)
	default:
		zzv.Assert("selection-dropped-on-reload", ok)
	}
	zzv.Assert("list-replaced", t.merger == mg && t.revision == rev)
}
