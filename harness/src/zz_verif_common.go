package fzf

// Verification harnesses for package fzf (injected by overlay; never written into /repo).

var zzHarnesses = map[string]func(){}
