package fzf

import (
	"unicode/utf8"

	"github.com/junegunn/fzf/src/zzv"
)

func init() {
	zzHarnesses["zzH_C11_scan"] = zzH_C11_scan
	zzHarnesses["zzH_C11_strip"] = zzH_C11_strip
}

// ---- reference: leftmost-first matcher of the regex in nextAnsiEscapeSequence's doc comment ----
//
//   (?:\x1b[\[()][0-9;:?]*[a-zA-Z@] | \x1b][0-9]+[;:][[:print:]]+(?:\x1b\\|\x07) | \x1b. | [\x0e\x0f] | .\x08)
//
// (the comment is a Go string literal: `[\\[()]` is the class "[", "(", ")"), plus the one
// extension the code documents in matchOperatingSystemCommand: `\x1b]8;;\x1b` closes a hyperlink.

func zzIsParam(c byte) bool { return c >= '0' && c <= '9' || c == ';' || c == ':' || c == '?' }
func zzIsFinal(c byte) bool { return c >= 'a' && c <= 'z' || c >= 'A' && c <= 'Z' || c == '@' }
func zzIsPrint(c byte) bool { return c >= 0x20 && c <= 0x7e }
func zzIsDigit(c byte) bool { return c >= '0' && c <= '9' }

// zzDot: length of the rune `.` matches at s[i:] (0 if none: end of string or newline).
func zzDot(s string, i int) int {
	if i >= len(s) || s[i] == '\n' {
		return 0
	}
	if s[i] < utf8.RuneSelf {
		return 1
	}
	_, n := utf8.DecodeRuneInString(s[i:])
	return n
}

// zzMatchAt: end of the match of the first alternative that matches at position i, or -1.
func zzMatchAt(s string, i int) int {
	n := len(s)
	if s[i] == 0x1b {
		// alternative 1: CSI-like
		if i+1 < n && (s[i+1] == '[' || s[i+1] == '(' || s[i+1] == ')') {
			j := i + 2
			for j < n && zzIsParam(s[j]) {
				j++
			}
			if j < n && zzIsFinal(s[j]) {
				return j + 1
			}
		}
		// alternative 2: OSC
		if i+1 < n && s[i+1] == ']' {
			j := i + 2
			for j < n && zzIsDigit(s[j]) {
				j++
			}
			if j > i+2 && j < n && (s[j] == ';' || s[j] == ':') {
				k := j + 1
				for k < n && zzIsPrint(s[k]) {
					k++
				}
				if k > j+1 && k < n {
					if s[k] == 0x07 {
						return k + 1
					}
					if s[k] == 0x1b && k+1 < n && s[k+1] == '\\' {
						return k + 2
					}
					// documented extension: ESC ] 8 ; ; ESC
					if s[k] == 0x1b && k == i+5 && s[i+2] == '8' && s[i+3] == ';' && s[i+4] == ';' {
						return k + 1
					}
				}
			}
		}
		// alternative 3: ESC + any character
		if d := zzDot(s, i+1); d > 0 {
			return i + 1 + d
		}
	}
	// alternative 4
	if s[i] == 0x0e || s[i] == 0x0f {
		return i + 1
	}
	// alternative 5: any character followed by backspace
	if d := zzDot(s, i); d > 0 && i+d < n && s[i+d] == 0x08 {
		return i + d + 1
	}
	return -1
}

// zzRefNext: leftmost match. Candidate start positions are rune starts as the regexp engine
// sees them: it advances one rune (one byte on invalid UTF-8) at a time.
func zzRefNext(s string) (int, int) {
	for i := 0; i < len(s); {
		if e := zzMatchAt(s, i); e >= 0 {
			return i, e
		}
		if s[i] < utf8.RuneSelf {
			i++
		} else {
			_, n := utf8.DecodeRuneInString(s[i:])
			i += n
		}
	}
	return -1, -1
}

func zzString(n int, kind int) string {
	b := make([]byte, n)
	for i := range b {
		switch kind {
		case 0:
			b[i] = zzv.Byte()
		case 1:
			b[i] = zzv.Byte7()
		default:
			b[i] = zzAnsiAlphabet[zzv.Below(len(zzAnsiAlphabet))]
		}
	}
	return string(b)
}

var zzAnsiAlphabet = []byte{0x1b, '[', ']', '(', '\\', '0', '8', ';', ':', '?', 'm', 'K', 'a', ' ', 0x07, 0x08, 0x0e, '\n', '@', 0x7f}

// H11.scan: nextAnsiEscapeSequence agrees with the documented regex on every byte string.
func zzH_C11_scan() {
	n := zzv.Choose(zzv.CfgInt("nmin"), zzv.CfgInt("nmax"))
	s := zzString(n, zzv.CfgInt("bytes"))
	a, b := nextAnsiEscapeSequence(s)
	zzv.Reach("called")
	zzv.Observe("start", a)
	zzv.Observe("end", b)
	ra, rb := zzRefNext(s)
	zzv.Assert("same-as-regex", a == ra && b == rb)
	zzv.Assert("well-formed", (a == -1 && b == -1) || (0 <= a && a < b && b <= len(s)))
}

// zzRefStrip removes every match, scanning left to right.
func zzRefStrip(s string) string {
	out := make([]byte, 0, len(s))
	for len(s) > 0 {
		a, b := zzRefNext(s)
		if a < 0 {
			break
		}
		out = append(out, s[:a]...)
		s = s[b:]
	}
	out = append(out, s...)
	return string(out)
}

// H11.strip: the text kept by extractColor is the input minus the sequences; spans are well-formed.
func zzH_C11_strip() {
	n := zzv.Choose(zzv.CfgInt("nmin"), zzv.CfgInt("nmax"))
	s := zzString(n, zzv.CfgInt("bytes"))
	var st *ansiState
	if zzv.CfgBool("state") {
		st = &ansiState{fg: 1, bg: -1, attr: 0, lbg: -1}
	}
	out, offs, _ := extractColor(s, st, nil)
	zzv.Reach("called")
	zzv.Observe("outlen", len(out))
	zzv.Assert("stripped-text", out == zzRefStrip(s))
	hasCtl := false
	for i := 0; i < len(s); i++ {
		if s[i] == 0x1b || s[i] == 0x08 || s[i] == 0x0e || s[i] == 0x0f {
			hasCtl = true
		}
	}
	if !hasCtl {
		zzv.Assert("untouched", out == s)
	}
	if offs != nil {
		zzv.Reach("opt:offsets")
		rc := utf8.RuneCountInString(out)
		// the code counts runes piece by piece (text between sequences)
		rcPieces := 0
		for t := s; len(t) > 0; {
			a, b := zzRefNext(t)
			if a < 0 {
				rcPieces += utf8.RuneCountInString(t)
				break
			}
			rcPieces += utf8.RuneCountInString(t[:a])
			t = t[b:]
		}
		ordered, inText, inPieces := true, true, true
		prevEnd := int32(0)
		for _, o := range *offs {
			if o.offset[0] < prevEnd || o.offset[1] < o.offset[0] {
				ordered = false
			}
			if int(o.offset[1]) > rc {
				inText = false
			}
			if int(o.offset[1]) > rcPieces {
				inPieces = false
			}
			prevEnd = o.offset[1]
		}
		zzv.Assert("spans-ordered", ordered)
		if rcPieces != rc {
			// candidate J (DESIGN §4): a sequence between the bytes of one multi-byte character
			// (input that is not valid UTF-8 as a whole): pieces re-join into fewer runes
			zzv.Assert("finding:C11-J-span-past-text-on-split-rune", inText)
			zzv.Assert("J-characterised-piecewise-count", inPieces)
		} else {
			zzv.Assert("spans-within-text", inText)
		}
	}
}
