package fzf

import (
	"unicode/utf8"

	"github.com/junegunn/fzf/src/tui"
	"github.com/junegunn/fzf/src/zzv"
)

func init() {
	zzHarnesses["zzH_C11_scan"] = zzH_C11_scan
	zzHarnesses["zzH_C11_strip"] = zzH_C11_strip
}

// ---- reference: leftmost-first matcher of the regex in nextAnsiEscapeSequence's doc comment ----
//
//   (?:\x1b[\[()][0-9;:?]*[a-zA-Z@] | \x1b][0-9]+[;:][[:print:]]+(?:\x1b\\|\x07) | \x1b. | [\x0e\x0f] | .\x08)
//
// (the comment is a Go string literal: `[\\[()]` is the class "[", "(", ")"), plus the one
// extension the code documents in matchOperatingSystemCommand: `\x1b]8;;\x1b` closes a hyperlink.

func zzIsParam(c byte) bool { return c >= '0' && c <= '9' || c == ';' || c == ':' || c == '?' }
func zzIsFinal(c byte) bool { return c >= 'a' && c <= 'z' || c >= 'A' && c <= 'Z' || c == '@' }
func zzIsPrint(c byte) bool { return c >= 0x20 && c <= 0x7e }
func zzIsDigit(c byte) bool { return c >= '0' && c <= '9' }

// zzDot: length of the rune `.` matches at s[i:] (0 if none: end of string or newline).
func zzDot(s string, i int) int {
	if i >= len(s) || s[i] == '\n' {
		return 0
	}
	if s[i] < utf8.RuneSelf {
		return 1
	}
	_, n := utf8.DecodeRuneInString(s[i:])
	return n
}

// zzMatchAt: end of the match of the first alternative that matches at position i, or -1.
func zzMatchAt(s string, i int) int {
	n := len(s)
	if s[i] == 0x1b {
		// alternative 1: CSI-like
		if i+1 < n && (s[i+1] == '[' || s[i+1] == '(' || s[i+1] == ')') {
			j := i + 2
			for j < n && zzIsParam(s[j]) {
				j++
			}
			if j < n && zzIsFinal(s[j]) {
				return j + 1
			}
		}
		// alternative 2: OSC
		if i+1 < n && s[i+1] == ']' {
			j := i + 2
			for j < n && zzIsDigit(s[j]) {
				j++
			}
			if j > i+2 && j < n && (s[j] == ';' || s[j] == ':') {
				k := j + 1
				for k < n && zzIsPrint(s[k]) {
					k++
				}
				if k > j+1 && k < n {
					if s[k] == 0x07 {
						return k + 1
					}
					if s[k] == 0x1b && k+1 < n && s[k+1] == '\\' {
						return k + 2
					}
					// documented extension: ESC ] 8 ; ; ESC
					if s[k] == 0x1b && k == i+5 && s[i+2] == '8' && s[i+3] == ';' && s[i+4] == ';' {
						return k + 1
					}
				}
			}
		}
		// alternative 3: ESC + any character
		if d := zzDot(s, i+1); d > 0 {
			return i + 1 + d
		}
	}
	// alternative 4
	if s[i] == 0x0e || s[i] == 0x0f {
		return i + 1
	}
	// alternative 5: any character followed by backspace
	if d := zzDot(s, i); d > 0 && i+d < n && s[i+d] == 0x08 {
		return i + d + 1
	}
	return -1
}

// zzRefNext: leftmost match. Candidate start positions are rune starts as the regexp engine
// sees them: it advances one rune (one byte on invalid UTF-8) at a time.
func zzRefNext(s string) (int, int) {
	for i := 0; i < len(s); {
		if e := zzMatchAt(s, i); e >= 0 {
			return i, e
		}
		if s[i] < utf8.RuneSelf {
			i++
		} else {
			_, n := utf8.DecodeRuneInString(s[i:])
			i += n
		}
	}
	return -1, -1
}

func zzString(n int, kind int) string {
	b := make([]byte, n)
	for i := range b {
		switch kind {
		case 0:
			b[i] = zzv.Byte()
		case 1:
			b[i] = zzv.Byte7()
		default:
			b[i] = zzAnsiAlphabet[zzv.Below(len(zzAnsiAlphabet))]
		}
	}
	return string(b)
}

var zzAnsiAlphabet = []byte{0x1b, '[', ']', '(', '\\', '0', '8', ';', ':', '?', 'm', 'K', 'a', ' ', 0x07, 0x08, 0x0e, '\n', '@', 0x7f}

// H11.scan: nextAnsiEscapeSequence agrees with the documented regex on every byte string.
func zzH_C11_scan() {
	n := zzv.Choose(zzv.CfgInt("nmin"), zzv.CfgInt("nmax"))
	s := zzString(n, zzv.CfgInt("bytes"))
	a, b := nextAnsiEscapeSequence(s)
	zzv.Reach("called")
	zzv.Observe("start", a)
	zzv.Observe("end", b)
	ra, rb := zzRefNext(s)
	zzv.Assert("same-as-regex", a == ra && b == rb)
	zzv.Assert("well-formed", (a == -1 && b == -1) || (0 <= a && a < b && b <= len(s)))
}

// zzRefStrip removes every match, scanning left to right.
func zzRefStrip(s string) string {
	out := make([]byte, 0, len(s))
	for len(s) > 0 {
		a, b := zzRefNext(s)
		if a < 0 {
			break
		}
		out = append(out, s[:a]...)
		s = s[b:]
	}
	out = append(out, s...)
	return string(out)
}

// H11.strip: the text kept by extractColor is the input minus the sequences; spans are well-formed.
func zzH_C11_strip() {
	n := zzv.Choose(zzv.CfgInt("nmin"), zzv.CfgInt("nmax"))
	s := zzString(n, zzv.CfgInt("bytes"))
	var st *ansiState
	if zzv.CfgBool("state") {
		st = &ansiState{fg: 1, bg: -1, attr: 0, lbg: -1}
	}
	out, offs, _ := extractColor(s, st, nil)
	zzv.Reach("called")
	zzv.Observe("outlen", len(out))
	zzv.Assert("stripped-text", out == zzRefStrip(s))
	hasCtl := false
	for i := 0; i < len(s); i++ {
		if s[i] == 0x1b || s[i] == 0x08 || s[i] == 0x0e || s[i] == 0x0f {
			hasCtl = true
		}
	}
	if !hasCtl {
		zzv.Assert("untouched", out == s)
	}
	if offs != nil {
		zzv.Reach("opt:offsets")
		rc := utf8.RuneCountInString(out)
		// the code counts runes piece by piece (text between sequences)
		rcPieces := 0
		for t := s; len(t) > 0; {
			a, b := zzRefNext(t)
			if a < 0 {
				rcPieces += utf8.RuneCountInString(t)
				break
			}
			rcPieces += utf8.RuneCountInString(t[:a])
			t = t[b:]
		}
		ordered, inText, inPieces := true, true, true
		prevEnd := int32(0)
		for _, o := range *offs {
			if o.offset[0] < prevEnd || o.offset[1] < o.offset[0] {
				ordered = false
			}
			if int(o.offset[1]) > rc {
				inText = false
			}
			if int(o.offset[1]) > rcPieces {
				inPieces = false
			}
			prevEnd = o.offset[1]
		}
		zzv.Assert("spans-ordered", ordered)
		if rcPieces != rc {
			// candidate J (DESIGN §4): a sequence between the bytes of one multi-byte character
			// (input that is not valid UTF-8 as a whole): pieces re-join into fewer runes
			zzv.Assert("finding:C11-J-span-past-text-on-split-rune", inText)
			zzv.Assert("J-characterised-piecewise-count", inPieces)
		} else {
			zzv.Assert("spans-within-text", inText)
		}
	}
}

func init() {
	zzHarnesses["zzH_C11_osc"] = zzH_C11_osc
	zzHarnesses["zzH_C11_sgr"] = zzH_C11_sgr
}

// H11.osc: grammar-generated strings around an operating-system command: optional text, ESC ] digits
// separator payload, every terminator form (BEL, ESC \, lone ESC, none), optional trailing text.
func zzH_C11_osc() {
	b := []byte{}
	for i, n := 0, zzv.Choose(0, 1); i < n; i++ {
		b = append(b, zzAnsiAlphabet[zzv.Below(len(zzAnsiAlphabet))])
	}
	b = append(b, 0x1b, ']')
	for i, n := 0, zzv.Choose(1, 2); i < n; i++ {
		b = append(b, "081"[zzv.Below(3)])
	}
	b = append(b, ";:"[zzv.Below(2)])
	for i, n := 0, zzv.Choose(0, zzv.CfgInt("payload")); i < n; i++ {
		b = append(b, "a;\\ "[zzv.Below(4)])
	}
	switch zzv.Choose(0, 3) {
	case 0:
		b = append(b, 0x07)
	case 1:
		b = append(b, 0x1b, '\\')
	case 2:
		b = append(b, 0x1b)
	}
	for i, n := 0, zzv.Choose(0, zzv.CfgInt("tail")); i < n; i++ {
		b = append(b, zzAnsiAlphabet[zzv.Below(len(zzAnsiAlphabet))])
	}
	s := string(b)
	x, y := nextAnsiEscapeSequence(s)
	zzv.Reach("called")
	zzv.Observe("start", x)
	zzv.Observe("end", y)
	rx, ry := zzRefNext(s)
	zzv.Assert("same-as-regex", x == rx && y == ry)
	out, _, _ := extractColor(s, nil, nil)
	zzv.Assert("stripped-text", out == zzRefStrip(s))
}

// ---- reference SGR interpreter (ECMA-48 / xterm) for the codes fzf supports ----

type zzSGR struct {
	fg, bg int32
	attr   int32
}

const (
	zzBold = 1 << iota
	zzDim
	zzItalic
	zzUnderline
	zzBlink
	zzReverse
	zzStrike
)

func zzAttrBit(a tui.Attr) int32 {
	var r int32
	if a&tui.Bold > 0 {
		r |= zzBold
	}
	if a&tui.Dim > 0 {
		r |= zzDim
	}
	if a&tui.Italic > 0 {
		r |= zzItalic
	}
	if a&tui.Underline > 0 {
		r |= zzUnderline
	}
	if a&tui.Blink > 0 {
		r |= zzBlink
	}
	if a&tui.Reverse > 0 {
		r |= zzReverse
	}
	if a&tui.StrikeThrough > 0 {
		r |= zzStrike
	}
	return r
}

func zzRefSGR(prev zzSGR, params []int) zzSGR {
	st := prev
	if len(params) == 0 {
		return zzSGR{-1, -1, 0}
	}
	for i := 0; i < len(params); i++ {
		p := params[i]
		switch {
		case p == 0:
			st = zzSGR{-1, -1, 0}
		case p == 1:
			st.attr |= zzBold
		case p == 2:
			st.attr |= zzDim
		case p == 3:
			st.attr |= zzItalic
		case p == 4:
			st.attr |= zzUnderline
		case p == 5:
			st.attr |= zzBlink
		case p == 7:
			st.attr |= zzReverse
		case p == 9:
			st.attr |= zzStrike
		case p == 22:
			st.attr &^= zzBold | zzDim
		case p == 23:
			st.attr &^= zzItalic
		case p == 24:
			st.attr &^= zzUnderline
		case p == 25:
			st.attr &^= zzBlink
		case p == 27:
			st.attr &^= zzReverse
		case p == 29:
			st.attr &^= zzStrike
		case p >= 30 && p <= 37:
			st.fg = int32(p - 30)
		case p == 39:
			st.fg = -1
		case p >= 40 && p <= 47:
			st.bg = int32(p - 40)
		case p == 49:
			st.bg = -1
		case p >= 90 && p <= 97:
			st.fg = int32(p - 90 + 8)
		case p >= 100 && p <= 107:
			st.bg = int32(p - 100 + 8)
		case p == 38 || p == 48:
			// 38;5;n  or  38;2;r;g;b  (well-formed by construction)
			var col int32
			if params[i+1] == 5 {
				col = int32(params[i+2])
				i += 2
			} else {
				col = int32(1<<24 | params[i+2]<<16 | params[i+3]<<8 | params[i+4])
				i += 4
			}
			if p == 38 {
				st.fg = col
			} else {
				st.bg = col
			}
		}
	}
	return st
}

var zzSimpleCodes = []int{0, 1, 2, 3, 4, 5, 7, 9, 22, 23, 24, 25, 27, 29, 30, 37, 39, 40, 47, 49, 90, 97, 100, 107, 6, 21}

// H11.sgr: for well-formed SGR sequences the colour/attribute state is what a terminal would show;
// the hyperlink and line background carried over from before are untouched.
func zzH_C11_sgr() {
	sep := ";:"[zzv.CfgInt("colon")]
	params := []int{}
	code := []byte{0x1b, '['}
	emit := func(v int, sym bool) {
		if len(params) > 0 {
			code = append(code, sep)
		}
		params = append(params, v)
		if sym {
			return
		}
		if v >= 100 {
			code = append(code, byte('0'+v/100))
		}
		if v >= 10 {
			code = append(code, byte('0'+(v/10)%10))
		}
		code = append(code, byte('0'+v%10))
	}
	symNum := func() {
		// one or two symbolic decimal digits
		d1 := zzv.Below(10)
		v := d1
		if len(params) > 0 {
			code = append(code, sep)
		}
		code = append(code, byte('0'+d1))
		if zzv.Bool() {
			d2 := zzv.Below(10)
			code = append(code, byte('0'+d2))
			v = d1*10 + d2
		}
		params = append(params, v)
	}
	items := zzv.Choose(0, zzv.CfgInt("items"))
	for k := 0; k < items; k++ {
		kinds := 2
		if sep == ':' && len(params) == 0 {
			kinds = 3 // the ITU T.416 form with an (empty) colour-space id needs a colon list
		}
		switch zzv.Choose(0, kinds) {
		case 3:
			// 38:2::r:g:b - the empty colour-space identifier is part of the well-formed colon form
			which := 38 + 10*zzv.Choose(0, 1)
			code = append(code, byte('0'+which/10), byte('0'+which%10), ':', '2', ':')
			params = append(params, which, 2)
			symNum()
			symNum()
			symNum()
		case 0:
			emit(zzSimpleCodes[zzv.Choose(0, len(zzSimpleCodes)-1)], false)
		case 1:
			emit(38+10*zzv.Choose(0, 1), false)
			emit(5, false)
			symNum()
		case 2:
			emit(38+10*zzv.Choose(0, 1), false)
			emit(2, false)
			symNum()
			symNum()
			symNum()
		}
	}
	code = append(code, 'm')
	var prev *ansiState
	ref := zzSGR{-1, -1, 0}
	link := &url{uri: "u"}
	switch zzv.Choose(0, 2) {
	case 1:
		prev = &ansiState{fg: 3, bg: -1, attr: tui.Bold, lbg: -1}
		ref = zzSGR{3, -1, zzBold}
	case 2:
		prev = &ansiState{fg: -1, bg: 4, attr: tui.Underline, lbg: 2, url: link}
		ref = zzSGR{-1, 4, zzUnderline}
	}
	got := interpretCode(string(code), prev)
	zzv.Reach("called")
	zzv.Observe("fg", int(got.fg))
	zzv.Observe("bg", int(got.bg))
	want := zzRefSGR(ref, params)
	zzv.Assert("colours-as-a-terminal-would-show", int32(got.fg) == want.fg && int32(got.bg) == want.bg)
	zzv.Assert("attributes-as-a-terminal-would-show", zzAttrBit(got.attr) == want.attr)
	if prev != nil {
		zzv.Assert("hyperlink-and-line-background-carried-over", got.url == prev.url && got.lbg == prev.lbg)
	} else {
		zzv.Assert("no-hyperlink-from-nowhere", got.url == nil && got.lbg == -1)
	}
}

func init() {
	zzHarnesses["zzH_C11_color"] = zzH_C11_color
}

// H11.color: grammar-generated interleavings of text and well-formed sequences: every character
// carries the colour/attributes a terminal would show, and the state carried to the next line is
// the terminal's state at the end of this one.
func zzH_C11_color() {
	var prev *ansiState
	cur := zzSGR{-1, -1, 0}
	if zzv.Bool() {
		prev = &ansiState{fg: 2, bg: -1, attr: 0, lbg: -1}
		cur = zzSGR{2, -1, 0}
	}
	line := []byte{}
	var want []zzSGR // per character
	n := zzv.Choose(0, zzv.CfgInt("items"))
	for i := 0; i < n; i++ {
		switch zzv.Choose(0, 5) {
		case 0:
			line = append(line, 'x')
			want = append(want, cur)
		case 1:
			line = append(line, "\x1b[31m"...)
			cur = zzRefSGR(cur, []int{31})
		case 2:
			line = append(line, "\x1b[1;44m"...)
			cur = zzRefSGR(cur, []int{1, 44})
		case 3:
			line = append(line, "\x1b[m"...)
			cur = zzRefSGR(cur, nil)
		case 4:
			line = append(line, "\x1b[K"...) // erase in line: no effect on colours
		case 5:
			line = append(line, "\x1b[39m"...)
			cur = zzRefSGR(cur, []int{39})
		}
	}
	out, offs, next := extractColor(string(line), prev, nil)
	zzv.Reach("called")
	zzv.Observe("outlen", len(out))
	zzv.Assert("text-kept", len(out) == len(want))
	ok := true
	for i := range want {
		// the span covering character i, if any
		got := zzSGR{-1, -1, 0}
		if offs != nil {
			for _, o := range *offs {
				if int(o.offset[0]) <= i && i < int(o.offset[1]) {
					got = zzSGR{int32(o.color.fg), int32(o.color.bg), zzAttrBit(o.color.attr)}
				}
			}
		}
		if got != want[i] {
			ok = false
		}
	}
	zzv.Assert("colours-per-character", ok)
	carried := zzSGR{-1, -1, 0}
	if next != nil {
		carried = zzSGR{int32(next.fg), int32(next.bg), zzAttrBit(next.attr)}
	}
	zzv.Assert("state-carried-to-next-line", carried == cur)
}
