package fzf

import (
	"github.com/junegunn/fzf/src/zzv"
)

func init() {
	zzHarnesses["zzH_C18_history"] = zzH_C18_history
}

var zzHistAlphabet = []byte{'\n', 'a', 'b'}

// zzHistEntries: the entries a history file holds: content stripped of leading and trailing
// newlines, split on newlines (interior blank lines are entries); empty content = no entries.
func zzHistEntries(data []byte) []string {
	lo, hi := 0, len(data)
	for lo < hi && data[lo] == '\n' {
		lo++
	}
	for hi > lo && data[hi-1] == '\n' {
		hi--
	}
	if lo == hi {
		return []string{}
	}
	out := []string{}
	start := lo
	for i := lo; i < hi; i++ {
		if data[i] == '\n' {
			out = append(out, string(data[start:i]))
			start = i + 1
		}
	}
	return append(out, string(data[start:hi]))
}

func zzSameStrings(a, b []string) bool {
	if len(a) != len(b) {
		return false
	}
	ok := true
	for i := range a {
		if a[i] != b[i] {
			ok = false
		}
	}
	return ok
}

// zzHistSession runs one session against the reference list model and returns the expected file content.
func zzHistSession(path string, maxSize int, content []byte, exists bool, steps int, tag string) ([]byte, bool) {
	h, err := NewHistory(path, maxSize)
	zzv.Assert("opens", err == nil && h != nil)
	if err != nil {
		return nil, false
	}
	entries := []string{}
	if exists {
		entries = zzHistEntries(content)
	}
	ref := append(append([]string{}, entries...), "")
	zzv.Assert("loads-exactly-the-file", zzSameStrings(h.lines, ref))
	hasMod := make([]bool, len(ref))
	modv := make([]string, len(ref))
	c := len(ref) - 1
	zzv.Assert("cursor-at-scratch-line", h.cursor == c)
	want := func() string {
		if hasMod[c] {
			return modv[c]
		}
		return ref[c]
	}
	for s := 0; s < steps; s++ {
		switch zzv.Choose(0, 3) {
		case 0:
			if c > 0 {
				c--
			}
			zzv.Assert("previous", h.previous() == want())
		case 1:
			if c < len(ref)-1 {
				c++
			}
			zzv.Assert("next", h.next() == want())
		case 2:
			// edit to a fresh text
			txt := "x"
			if zzv.Bool() {
				txt = "yy"
			}
			h.override(txt)
			if c == len(ref)-1 {
				ref[c] = txt
			} else {
				hasMod[c], modv[c] = true, txt
			}
			zzv.Assert("edit-visible", h.current() == txt)
		case 3:
			// edit back to the stored text of this entry
			if c < len(entries) {
				txt := entries[c]
				h.override(txt)
				hasMod[c], modv[c] = true, txt
				zzv.Assert("edit-back-visible", h.current() == txt)
			}
		}
		zzv.Assert("cursor-in-range", h.cursor >= 0 && h.cursor < len(h.lines) && h.cursor == c)
	}
	// submit at most one query
	q := ""
	switch zzv.Choose(0, 2) {
	case 1:
		q = "q"
	case 2:
		q = want() // what the prompt shows (may be an edited history entry)
	}
	newline := false
	for i := 0; i < len(q); i++ {
		if q[i] == '\n' {
			newline = true
		}
	}
	zzv.Assume(!newline)
	zzv.Assert("append-ok", h.append(q) == nil)
	got, ok := zzv.ReadBack(path)
	if len(q) == 0 {
		// nothing submitted: the file is what it was (created empty if it did not exist)
		if exists {
			zzv.Assert("unchanged-without-submit", ok && string(got) == string(content))
			return content, true
		}
		zzv.Assert("created-empty", ok && len(got) == 0)
		return []byte{}, true
	}
	all := append(append([]string{}, entries...), q)
	if len(all) > maxSize {
		all = all[len(all)-maxSize:]
	}
	exp := []byte{}
	for _, e := range all {
		exp = append(exp, e...)
		exp = append(exp, '\n')
	}
	zzv.Assert("file-holds-last-N", ok && string(got) == string(exp))
	zzv.Reach("opt:submitted-" + tag)
	return exp, true
}

// H18: two consecutive sessions on one history file.
func zzH_C18_history() {
	n := zzv.Choose(zzv.CfgInt("nmin"), zzv.CfgInt("nmax"))
	exists := true
	if n == 0 {
		exists = zzv.Bool()
	}
	content := make([]byte, n)
	for i := range content {
		content[i] = zzHistAlphabet[zzv.Below(len(zzHistAlphabet))]
	}
	maxSize := zzv.Choose(1, zzv.CfgInt("maxsize"))
	path := zzv.ScratchFile("hist", content, exists)
	zzv.Reach("called")
	c2, ok := zzHistSession(path, maxSize, content, exists, zzv.CfgInt("steps"), "1")
	if ok && zzv.CfgBool("second") {
		zzHistSession(path, maxSize, c2, true, zzv.CfgInt("steps2"), "2")
	}
}
