package fzf

import (
	"errors"
	"io"

	"github.com/junegunn/fzf/src/util"
	"github.com/junegunn/fzf/src/zzv"
)

func init() {
	zzHarnesses["zzH_C06_feed"] = zzH_C06_feed
	zzHarnesses["zzH_C06_chunks"] = zzH_C06_chunks
}

// zzSrc is an io.Reader obeying the contract of *os.File (what fzf passes to feed): 0 <= n <= len(p);
// data never arrives together with an error; (0, nil) is allowed.
type zzSrc struct {
	stream   []byte // everything delivered so far
	reads    int
	maxReads int
	delim    byte
	emptyRun int
	idle     bool // return (0, nil) forever
}

var zzErrIO = errors.New("read error")

func (s *zzSrc) Read(p []byte) (int, error) {
	if s.idle {
		return 0, nil
	}
	if s.reads >= s.maxReads {
		return 0, io.EOF
	}
	s.reads++
	n := zzv.Choose(0, len(p))
	if n == 0 {
		switch zzv.Choose(0, 2) {
		case 0:
			return 0, io.EOF
		case 1:
			return 0, zzErrIO
		}
		s.emptyRun++
		zzv.Assume(s.emptyRun <= 2)
		return 0, nil
	}
	s.emptyRun = 0
	for i := 0; i < n; i++ {
		var b byte
		switch zzv.Below(3) {
		case 0:
			b = s.delim
		case 1:
			b = 'a'
		default:
			b = '\r'
		}
		p[i] = b
		s.stream = append(s.stream, b)
	}
	return n, nil
}

// zzRefRecords: every terminated record (empty ones included) plus a final unterminated one.
func zzRefRecords(stream []byte, delim byte) [][]byte {
	out := [][]byte{}
	start := 0
	for i, b := range stream {
		if b == delim {
			out = append(out, stream[start:i])
			start = i + 1
		}
	}
	if start < len(stream) {
		out = append(out, stream[start:])
	}
	return out
}

// H6.feed: Reader.feed turns any delivery of a stream into exactly its records, in order, unaltered.
// readerBufferSize / readerSlabSize are scaled (3 / 6) so that slab rotation and records longer
// than the buffer are inside the bound.
func zzH_C06_feed() {
	delimNil := zzv.CfgBool("read0")
	src := &zzSrc{maxReads: zzv.CfgInt("reads"), delim: '\n', idle: zzv.CfgBool("idle")}
	if delimNil {
		src.delim = 0
	}
	var got [][]byte
	r := &Reader{delimNil: delimNil}
	r.pusher = func(data []byte) bool {
		got = append(got, data) // keeps the slice it was handed (as the item builder does)
		return true
	}
	r.feed(src)
	zzv.Reach("returned")
	want := zzRefRecords(src.stream, src.delim)
	zzv.Observe("nrec", len(got))
	zzv.Assert("record-count", len(got) == len(want))
	if len(got) == len(want) {
		same := true
		for i := range want {
			if string(got[i]) != string(want[i]) {
				same = false
			}
		}
		zzv.Assert("records-unaltered-in-order", same)
	}
}

// H6.chunks: ChunkList.Push / Snapshot(tail) / CountItems with chunkSize scaled to 3.
func zzH_C06_chunks() {
	tail := zzv.CfgInt("tail")
	next := 0
	cl := NewChunkList(NewChunkCache(), func(item *Item, data []byte) bool {
		if len(data) > 0 && data[0] == '!' {
			return false // rejected by the builder (e.g. header line): must add nothing
		}
		item.text = util.ToChars(data)
		item.text.Index = int32(next)
		next++
		return true
	})
	ops := zzv.CfgInt("ops")
	pushed := 0 // accepted items so far = ordinal of the next
	type snap struct {
		chunks []*Chunk
		count  int
		first  int // ordinal of the first item it must hold
	}
	var snaps []snap
	check := func(s snap, id string) {
		ok := CountItems(s.chunks) == s.count
		k := 0
		for ci, c := range s.chunks {
			if c.count < 0 || c.count > chunkSize {
				ok = false
			}
			if ci > 0 && ci < len(s.chunks)-1 && c.count != chunkSize {
				ok = false
			}
			for i := 0; i < c.count && i < chunkSize; i++ {
				if int(c.items[i].Index()) != s.first+k {
					ok = false
				}
				k++
			}
		}
		if k != s.count {
			ok = false
		}
		zzv.Assert(id, ok)
	}
	for o := 0; o < ops; o++ {
		switch zzv.Choose(0, 2) {
		case 0:
			zzv.Assert("push-accepted", cl.Push([]byte{'a'}))
			pushed++
		case 1:
			zzv.Assert("push-rejected", !cl.Push([]byte{'!'}))
		case 2:
			chunks, count, _ := cl.Snapshot(tail)
			want := pushed
			if tail > 0 && pushed > tail {
				want = tail
			}
			zzv.Assert("snapshot-count", count == want)
			s := snap{chunks, count, pushed - want}
			check(s, "snapshot-holds-last-items-in-order")
			snaps = append(snaps, s)
			zzv.Reach("opt:snapshot")
		}
	}
	// C13: every snapshot ever returned still holds exactly what it held when returned
	for _, s := range snaps {
		check(s, "snapshots-immutable")
	}
	zzv.Reach("done")
}
