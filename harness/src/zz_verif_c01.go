package fzf

import (
	"unicode"

	"github.com/junegunn/fzf/src/algo"
	"github.com/junegunn/fzf/src/util"
	"github.com/junegunn/fzf/src/zzv"
)

func init() {
	zzHarnesses["zzH_C01_parse"] = zzH_C01_parse
	zzHarnesses["zzH_C01_glue"] = zzH_C01_glue
}

var zzTermAlphabet = []rune{'a', 'b', 'A', 'é'}

type zzTerm struct {
	kind int // 0 plain, 1 't, 2 't', 3 ^t, 4 t$, 5 ^t$
	inv  bool
	text []rune
}

// zzGenQuery generates a well-formed extended-search query from the documented grammar and
// returns its structure: groups (AND) of alternatives (OR).
func zzGenQuery(maxSets, maxAlts, maxLen int) (string, [][]zzTerm) {
	nsets := zzv.Choose(1, maxSets)
	sets := make([][]zzTerm, nsets)
	q := ""
	for s := range sets {
		nalt := zzv.Choose(1, maxAlts)
		sets[s] = make([]zzTerm, nalt)
		if s > 0 {
			q += " "
			if zzv.Bool() {
				q += " " // any number of spaces separates terms
			}
		}
		for a := range sets[s] {
			t := zzTerm{kind: zzv.Choose(0, 5), inv: zzv.Choose(0, 1) == 1}
			l := zzv.Choose(1, maxLen)
			t.text = make([]rune, l)
			for i := range t.text {
				t.text[i] = zzTermAlphabet[zzv.Below(len(zzTermAlphabet))]
			}
			sets[s][a] = t
			if a > 0 {
				q += " | "
			}
			if t.inv {
				q += "!"
			}
			body := string(t.text)
			switch t.kind {
			case 1:
				q += "'" + body
			case 2:
				q += "'" + body + "'"
			case 3:
				q += "^" + body
			case 4:
				q += body + "$"
			case 5:
				q += "^" + body + "$"
			default:
				q += body
			}
		}
	}
	return q, sets
}

// zzExpectedType: the documented reading of a term kind.
func zzExpectedType(kind int, inv bool, fuzzyMode bool) termType {
	switch kind {
	case 0:
		if fuzzyMode && !inv {
			return termFuzzy
		}
		return termExact // --exact, or !term (inverse terms are exact by default)
	case 1: // quote flips
		if fuzzyMode && !inv {
			return termExact
		}
		return termFuzzy
	case 2:
		return termExactBoundary
	case 3:
		return termPrefix
	case 4:
		return termSuffix
	}
	return termEqual
}

func zzHasUpper(rs []rune) bool {
	for _, r := range rs {
		if unicode.ToLower(r) != r {
			return true
		}
	}
	return false
}

func zzHasAccent(rs []rune) bool {
	for _, r := range rs {
		if r == 'é' {
			return true
		}
	}
	return false
}

func zzLowerRunes(rs []rune) []rune {
	out := make([]rune, len(rs))
	for i, r := range rs {
		out[i] = unicode.ToLower(r)
	}
	return out
}

func zzSameRunes(a, b []rune) bool {
	if len(a) != len(b) {
		return false
	}
	ok := true
	for i := range a {
		if a[i] != b[i] {
			ok = false
		}
	}
	return ok
}

// zzExpectedTerm: case sensitivity is decided per term (smart-case), normalisation is off for a term that carries an accent.
func zzExpectedTerm(t zzTerm, fuzzyMode bool, caseMode Case, normalize bool) term {
	cs := caseMode == CaseRespect || caseMode == CaseSmart && zzHasUpper(t.text)
	txt := t.text
	if !cs {
		txt = zzLowerRunes(txt)
	}
	return term{typ: zzExpectedType(t.kind, t.inv, fuzzyMode), inv: t.inv, text: txt, caseSensitive: cs,
		normalize: normalize && !zzHasAccent(t.text)}
}

// H1.parse: parseTerms / BuildPattern read a grammar-generated query exactly as documented.
func zzH_C01_parse() {
	fuzzyMode := zzv.CfgBool("fuzzy")
	caseMode := Case(zzv.CfgInt("case"))
	normalize := zzv.CfgBool("norm")
	q, sets := zzGenQuery(zzv.CfgInt("sets"), zzv.CfgInt("alts"), zzv.CfgInt("len"))
	zzv.Observe("qlen", len(q))
	got := parseTerms(fuzzyMode, caseMode, normalize, q)
	zzv.Reach("called")
	zzv.Assert("group-count", len(got) == len(sets))
	if len(got) == len(sets) {
		ok := true
		for s := range sets {
			if len(got[s]) != len(sets[s]) {
				ok = false
				continue
			}
			for a := range sets[s] {
				g, e := got[s][a], zzExpectedTerm(sets[s][a], fuzzyMode, caseMode, normalize)
				if g.typ != e.typ || g.inv != e.inv || g.caseSensitive != e.caseSensitive || g.normalize != e.normalize || !zzSameRunes(g.text, e.text) {
					ok = false
				}
			}
		}
		zzv.Assert("terms-as-documented", ok)
	}
	// derived flags of the pattern
	p := BuildPattern(NewChunkCache(), map[string]*Pattern{}, fuzzyMode, algo.FuzzyMatchV2, true, caseMode, normalize, true,
		false, true, nil, Delimiter{}, revision{}, []rune(q), nil)
	anyPositive, plain := false, true
	for _, set := range sets {
		if len(set) > 1 {
			plain = false
		}
		for _, t := range set {
			if !t.inv {
				anyPositive = true
			}
			typ := zzExpectedType(t.kind, t.inv, fuzzyMode)
			if t.inv || fuzzyMode && typ != termFuzzy || !fuzzyMode && typ != termExact {
				plain = false
			}
		}
	}
	// results are ranked unless the query has only negated terms (C04)
	zzv.Assert("sortable-iff-some-positive-term", p.sortable == anyPositive)
	// the search scope of a narrower query may be reused only for plain AND-ed terms (C08)
	zzv.Assert("cacheable-iff-plain", p.cacheable == plain)
}

func zzKindOfType(t termType) int {
	switch t {
	case termFuzzy:
		return 5
	case termExact:
		return 0
	case termExactBoundary:
		return 1
	case termPrefix:
		return 2
	case termSuffix:
		return 3
	}
	return 4
}

var zzLineAlphabet = []rune{'a', 'b', 'A', 'e', 'é', ' '}

// H1.glue: real parse + real matchers together: a line is reported iff it satisfies the query.
func zzH_C01_glue() {
	algo.Init("default")
	sortCriteria = []criterion{byScore, byLength}
	fuzzyMode := zzv.CfgBool("fuzzy")
	caseMode := Case(zzv.CfgInt("case"))
	normalize := zzv.CfgBool("norm")
	q, sets := zzGenQuery(zzv.CfgInt("sets"), zzv.CfgInt("alts"), zzv.CfgInt("len"))
	n := zzv.Choose(0, zzv.CfgInt("nmax"))
	line := make([]rune, n)
	for i := range line {
		line[i] = zzLineAlphabet[zzv.Below(len(zzLineAlphabet))]
	}
	item := &Item{text: util.ToChars([]byte(string(line)))}
	p := BuildPattern(NewChunkCache(), map[string]*Pattern{}, fuzzyMode, algo.FuzzyMatchV2, true, caseMode, normalize, true,
		false, true, nil, Delimiter{}, revision{}, []rune(q), nil)
	res, _, _ := p.MatchItem(item, false, nil)
	zzv.Reach("called")
	zzv.Observe("matched", map[bool]int{false: 0, true: 1}[res != nil])
	want := true
	for _, set := range sets {
		any := false
		for _, t := range set {
			e := zzExpectedTerm(t, fuzzyMode, caseMode, normalize)
			pat := e.text
			if e.normalize {
				pat = algo.NormalizeRunes(pat)
			}
			m := algo.ZZTermMatches(zzKindOfType(e.typ), line, pat, e.caseSensitive, e.normalize)
			if m != t.inv {
				any = true
			}
		}
		if !any {
			want = false
		}
	}
	zzv.Assert("filtering-is-exact", (res != nil) == want)
}

func init() {
	zzHarnesses["zzH_C01_noext"] = zzH_C01_noext
}

var zzRawQueryAlphabet = []rune{'a', 'A', ' ', 'é', '|', '!', '^'}

// H1.noext: with --no-extended the whole query string is one pattern: operators are ordinary
// characters, smart-case and the accent rule are decided over the whole string.
func zzH_C01_noext() {
	algo.Init("default")
	sortCriteria = []criterion{byScore, byLength}
	fuzzyMode := zzv.CfgBool("fuzzy")
	caseMode := Case(zzv.CfgInt("case"))
	normalize := zzv.CfgBool("norm")
	m := zzv.Choose(1, zzv.CfgInt("qmax"))
	q := make([]rune, m)
	for i := range q {
		q[i] = zzRawQueryAlphabet[zzv.Below(len(zzRawQueryAlphabet))]
	}
	n := zzv.Choose(0, zzv.CfgInt("nmax"))
	line := make([]rune, n)
	for i := range line {
		line[i] = []rune{'a', 'A', ' ', 'e', 'é', '|', '!', '^'}[zzv.Below(8)]
	}
	item := &Item{text: util.ToChars([]byte(string(line)))}
	p := BuildPattern(NewChunkCache(), map[string]*Pattern{}, fuzzyMode, algo.FuzzyMatchV2, false, caseMode, normalize, true,
		false, true, nil, Delimiter{}, revision{}, q, nil)
	res, _, _ := p.MatchItem(item, false, nil)
	zzv.Reach("called")
	cs := caseMode == CaseRespect || caseMode == CaseSmart && zzHasUpper(q)
	norm := normalize && !zzHasAccent(q)
	pat := q
	if !cs {
		pat = zzLowerRunes(q)
	}
	kind := 0
	if fuzzyMode {
		kind = 5
	}
	zzv.Assert("pattern-flags", p.caseSensitive == cs && p.normalize == norm && zzSameRunes(p.text, pat) && p.sortable)
	want := algo.ZZTermMatches(kind, line, pat, cs, norm)
	zzv.Assert("filtering-is-exact", (res != nil) == want)
}
