MOD = "github.com/junegunn/fzf"
ALGO = dict(pkg=MOD + "/src/algo", test_pkg="./src/algo", patterns="./src/algo,./src/util", harness_dirs=["algo"])
SRC = dict(pkg=MOD + "/src", test_pkg="./src", patterns="./src,./src/algo,./src/util", harness_dirs=["algo", "util", "src"])


def product(**axes):
    keys = list(axes)
    out = [{}]
    for k in keys:
        out = [dict(o, **{k: v}) for o in out for v in axes[k]]
    return out


def jid(prefix, cfg):
    return prefix + ":" + ",".join("%s=%s" % (k, cfg[k]) for k in sorted(cfg))


def scaled_constants(**vals):
    """Returns a generate(repo, work) function producing an overlay copy of src/constants.go in which only the
    initialiser expressions of the named constants are replaced (DESIGN §2.4). Missing name -> error (inconclusive)."""
    import re, os

    def gen(repo, work):
        path = os.path.join(repo, "src/constants.go")
        src = open(path).read()
        for name, val in vals.items():
            pat = re.compile(r"(^\s*" + re.escape(name) + r"\s*(?:int\s*)?=\s*)([^\n/]+?)(\s*(//[^\n]*)?$)", re.M)
            if len(pat.findall(src)) != 1:
                raise RuntimeError("constant %s not found exactly once in src/constants.go" % name)
            src = pat.sub(lambda m: m.group(1) + str(val) + m.group(3), src)
        out = os.path.join(work, "constants_scaled.go")
        open(out, "w").write(src)
        return {path: out}
    return gen


def gen_portable(repo, work):
    """compareRanks of result_others.go (excluded by build tag here) as a renamed, tag-stripped copy."""
    import os, re
    src = open(os.path.join(repo, "src/result_others.go")).read()
    src = re.sub(r"//go:build[^\n]*\n", "", src)
    if src.count("func compareRanks(") != 1:
        raise RuntimeError("compareRanks not found in result_others.go")
    src = src.replace("func compareRanks(", "func zzCompareRanksPortable(")
    out = os.path.join(work, "zz_portable.go")
    open(out, "w").write(src)
    return {os.path.join(repo, "src/zz_verif_portable.go"): out}


LIFTS = [
    dict(name="streamPusher", file="src/core.go", func="Run", contains="pattern.MatchItem(&item", pkg="./src"),
    dict(name="plainBuilder", file="src/core.go", func="Run", contains="item.text, item.colors = ansiProcessor(data)", pkg="./src"),
    dict(name="nthBuilder", file="src/core.go", func="Run", contains="item.origText = &data", pkg="./src"),
    dict(name="walkFn", file="src/reader.go", func="readFiles", contains="filepath.SkipDir", pkg="./src"),
    dict(name="ansiColored", file="src/core.go", func="Run", contains="lineAnsiState = newState", pkg="./src"),
    dict(name="ansiPlain", file="src/core.go", func="Run", contains="extractColor(byteString(data), nil, nil)", pkg="./src"),
    dict(name="doAction", file="src/terminal.go", func="Loop", contains="Keep track of the current query before the action is executed", pkg="./src"),
    dict(name="toggle", file="src/terminal.go", func="Loop", contains="t.toggleItem(current)", pkg="./src"),
]


def gen_lifts(repo, work):
    """Closure lifting (DESIGN §2.5): wrappers generated from the current source by `symgo lift`."""
    import os, json, subprocess
    spec = os.path.join(work, "lifts.json")
    json.dump(LIFTS, open(spec, "w"))
    out = os.path.join(work, "lifted")
    os.makedirs(out, exist_ok=True)
    engine = os.path.join(os.path.dirname(os.path.dirname(os.path.abspath(__file__))), "engine", "symgo")
    r = subprocess.run([engine, "lift", repo, spec, out], capture_output=True, text=True)
    if r.returncode != 0:
        raise RuntimeError("closure lifting failed: " + (r.stderr or r.stdout)[-500:])
    return json.loads(r.stdout)


def src_suite(name, jobs, **consts):
    """A suite over package fzf (src): harness files of algo + src, the portable comparator copy, lifted closures, optional scaled constants."""
    def gen(repo, work):
        ov = gen_portable(repo, work)
        ov.update(gen_lifts(repo, work))
        if consts:
            ov.update(scaled_constants(**consts)(repo, work))
        return ov
    return dict(SRC, name=name, jobs=jobs, generate=gen)
