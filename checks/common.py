MOD = "github.com/junegunn/fzf"
ALGO = dict(pkg=MOD + "/src/algo", test_pkg="./src/algo", patterns="./src/algo,./src/util", harness_dirs=["algo"])
SRC = dict(pkg=MOD + "/src", test_pkg="./src", patterns="./src,./src/algo,./src/util", harness_dirs=["algo", "src"])


def product(**axes):
    keys = list(axes)
    out = [{}]
    for k in keys:
        out = [dict(o, **{k: v}) for o in out for v in axes[k]]
    return out


def jid(prefix, cfg):
    return prefix + ":" + ",".join("%s=%s" % (k, cfg[k]) for k in sorted(cfg))
