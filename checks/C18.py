from common import *

META = dict(
    explanation="NewHistory/append/override/current/previous/next are executed over symbolic initial file contents and every sequence of "
                "navigation/edit steps up to the bound, in two consecutive sessions, against a list model; file I/O goes to a virtual file "
                "in the engine and to a real scratch file in native replays.",
    functions=["fzf.NewHistory", "fzf.(*History).append", "fzf.(*History).override", "fzf.(*History).current", "fzf.(*History).previous",
               "fzf.(*History).next", "strings.Trim", "strings.Split", "strings.Join (real code)"],
    outside=["more than two sessions / more steps than the bound", "file contents longer than the bound or over another alphabet than {\\n,a,b}",
             "I/O errors (permission denied)"],
    models=["os.ReadFile/WriteFile/Remove/IsNotExist -> zzv virtual file (vfs.go)", "strings.Index/Count naive models"],
    assumptions=["a session submits at most one query, when it ends (the only order in which fzf uses the history)", "submitted queries contain no newline"],
)


def suites(tier):
    jobs = []
    if tier == "quick":
        cfgs = [dict(nmin=0, nmax=3, maxsize=2, steps=3, second=1, steps2=1), dict(nmin=4, nmax=4, maxsize=2, steps=1, second=1, steps2=0)]
    else:
        cfgs = [dict(nmin=0, nmax=4, maxsize=3, steps=4, second=1, steps2=2), dict(nmin=5, nmax=6, maxsize=3, steps=2, second=1, steps2=1)]
    for cfg in cfgs:
        jobs.append(dict(id=jid("hist", cfg), func="zzH_C18_history", cfg=cfg))
    return [src_suite("src", jobs)]
