from common import *

META = dict(
    explanation="Every matcher is run twice on the same symbolic line and pattern: with a zeroed slab and with a slab of the same capacity "
                "whose every cell is an unconstrained symbol (= whatever any earlier call history left there); as bytes and as runes; with "
                "and without position tracking. The solver must prove the two results identical.",
    functions=["algo.FuzzyMatchV2", "algo.FuzzyMatchV1", "algo.exactMatchNaive", "algo.PrefixMatch", "algo.SuffixMatch", "algo.EqualMatch",
               "algo.alloc16", "algo.alloc32", "util.MakeSlab", "util.ToChars", "util.RunesToChars", "fzf.(*Pattern).MatchItem / Match (frame condition: the shared Pattern is not written)"],
    outside=["worker/partition assignment and goroutines themselves (argued from slab independence plus the frame condition that the shared Pattern is only read while matching)", "lines longer than the bounds"],
    models=["internal/bytealg.IndexByte model", "unicode.* lifted over finite domains"],
    assumptions=["Algo preconditions on the pattern", "H5.pos asserts the documented approximate Start for FuzzyMatchV2 without positions"],
)


def suites(tier):
    jobs = []
    if tier == "quick":
        nmax, mmax = 3, 2
    else:
        nmax, mmax = 4, 3
    if tier == "quick":
        caps = [(0, 0), (4, 8), (16, 8), (30, 8), (30, 3)]
    else:
        caps = [(0, 0), (4, 8), (10, 8), (16, 8), (22, 8), (40, 12), (40, 3), (40, 6), (60, 12)]
    for c16, c32 in caps:
        for cfg in product(kind=[6], cs=[0], fwd=[0, 1], pos=[0, 1]):
            cfg.update(norm=0, rep=0, pk=0, scheme=0, nmin=1, nmax=nmax, mmin=1, mmax=mmax, c16=c16, c32=c32, vsnil=1)
            jobs.append(dict(id=jid("slab", cfg), func="zzH_C05_slab", cfg=cfg))
    # longer lines over a 4-symbol alphabet: the back-trace of FuzzyMatchV2 reads score-matrix cells
    # of the next row that the current call may never have written
    for cfg in product(cs=[1] if tier == "quick" else [0, 1], fwd=[1] if tier == "quick" else [0, 1]):
        cfg.update(kind=6, pos=1, norm=0, rep=3, pk=2, scheme=0, nmin=7, nmax=7, mmin=2, mmax=2, c16=60, c32=16, vsnil=0)
        jobs.append(dict(id=jid("slab-long", cfg), func="zzH_C05_slab", cfg=cfg))
    for cfg in product(kind=[5, 0], cs=[0], fwd=[0, 1], pos=[1]):
        cfg.update(norm=0, rep=0, pk=0, scheme=0, nmin=1, nmax=nmax, mmin=1, mmax=mmax, c16=4, c32=4, vsnil=1)
        jobs.append(dict(id=jid("slab", cfg), func="zzH_C05_slab", cfg=cfg))
    for cfg in product(kind=[0, 1, 2, 3, 4, 5, 6], cs=[0, 1], fwd=[0, 1], pos=[1]):
        cfg.update(norm=0, pk=0, scheme=0, nmin=0, nmax=nmax, mmin=1, mmax=mmax, c16=0, c32=0)
        jobs.append(dict(id=jid("repr", cfg), func="zzH_C05_repr", cfg=cfg))
    # with a small slab: the fall-back to the greedy algorithm must not depend on the representation
    for cfg in product(c16=[5, 7] if tier == "quick" else [3, 5, 7, 9], cs=[1], fwd=[0, 1], pos=[1]):
        cfg.update(kind=6, norm=0, pk=2, scheme=0, nmin=3, nmax=nmax + 1, mmin=2, mmax=2, c32=12)
        jobs.append(dict(id=jid("repr-slab", cfg), func="zzH_C05_repr", cfg=cfg))
    for cfg in product(kind=[0, 1, 2, 3, 4, 5, 6], cs=[0], fwd=[0, 1]):
        cfg.update(norm=0, rep=0, pk=0, scheme=0, nmin=0, nmax=nmax, mmin=1, mmax=mmax)
        jobs.append(dict(id=jid("pos", cfg), func="zzH_C05_pos", cfg=cfg))
    # the Pattern shared by all workers is only read while matching (frame condition)
    sjobs = []
    for cfg in product(extended=[0, 1], nth=[0, 1]):
        cfg.update(sets=1 if tier == "quick" else 2, alts=1, len=1, nmax=1 if tier == "quick" else 2)
        sjobs.append(dict(id=jid("shared", cfg), func="zzH_C05_shared", cfg=cfg))
    return [dict(ALGO, name="algo", jobs=jobs), src_suite("src", sjobs)]
