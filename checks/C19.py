from common import *

META = dict(
    explanation="Filter callback only: the function literal readFiles hands to fastwalk is lifted verbatim from the current source and called on symbolic "
                "paths (L<=5 over {., /, a, b}) for files and directories under every combination of file/dir/hidden and a skip list: pruning, "
                "listing, trailing separator and ./-trimming must be as documented.",
    functions=["readFiles: walker callback (lifted)", "fzf.(*Reader).readFiles (whole, with fastwalk.Walk modelled over a tree description)", "fzf.trimPath", "fzf.parseWalkerOpts", "fzf.isSymlinkToDir (natively; modelled in the engine)", "path/filepath.Base (real code)", "strings.HasSuffix"],
    outside=["fastwalk itself (each entry once, traversal order, symlink following)", "the file system", "whether a followed link to a directory is itself listed, and in which form (fzf lists it as `name/` under `file`; the property does not say)", "trees other than the small fixed-shape ones of the tree harness (modelled walker; natively the real fastwalk on a scratch directory)"],
    models=["fs.DirEntry stub (regular file, directory or symbolic link)", "sync.Mutex no-op", "fastwalk.Walk: 40-line model over a tree description (callback once per entry, SkipDir, Follow, link-to-ancestor not descended), compared with the real fastwalk on a real scratch tree on the sampled paths and on every counterexample", "isSymlinkToDir answered from the tree description in the engine (os.Stat natively)"],
    assumptions=["'hidden entries' read as the man page defines `hidden`: hidden directories"],
)


def suites(tier):
    q = tier == "quick"
    jobs = []
    for cfg in product(file=[0, 1], dir=[0, 1], hidden=[0, 1], skip=[0, 1]):
        cfg.update(follow=0, nmax=4 if q else 7)
        jobs.append(dict(id=jid("walk", cfg), func="zzH_C19_walkfn", cfg=cfg))
    for cfg in product(file=[0, 1], dir=[0, 1], hidden=[0, 1]):
        cfg.update(follow=0, links=0)
        jobs.append(dict(id=jid("tree", cfg), func="zzH_C19_tree", cfg=cfg))
    for cfg in product(file=[0, 1], dir=[0, 1], hidden=[0, 1], follow=[0, 1]):
        cfg.update(links=1)
        jobs.append(dict(id=jid("tree", cfg), func="zzH_C19_tree", cfg=cfg))
    jobs.append(dict(id="args", func="zzH_C19_args", cfg={}))
    jobs.append(dict(id="opts", func="zzH_C19_opts", cfg=dict(nmax=3 if q else 5)))
    return [src_suite("src", jobs)]
