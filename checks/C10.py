from common import *

META = dict(
    explanation="awkTokenizer/Tokenize/withPrefixLengths on symbolic lines (fields partition the line, offsets are character offsets), "
                "ParseRange on symbolic strings against an independent parser of the documented forms, Transform for all range forms and bounds.",
    functions=["fzf.awkTokenizer", "fzf.Tokenize", "fzf.withPrefixLengths", "fzf.ParseRange", "fzf.newRange", "fzf.Transform", "fzf.JoinTokens",
               "util.ToChars", "strings.SplitAfter (real code over strings.Index model)", "strconv.Atoi (real code)"],
    outside=["regular-expression delimiters on symbolic lines (the regex harness enumerates concrete lines and runs Go's regexp natively)", "{N} placeholder template regex", "lines longer than the bound"],
    models=["strings.Index / strings.Count naive models", "bytes.Buffer executed as real code"],
    assumptions=[],
)


def suites(tier):
    jobs = []
    q = tier == "quick"
    for kind, nmax in ((0, 4 if q else 7), (1, 3 if q else 5)):
        cfg = dict(kind=kind, nmin=0, nmax=nmax)
        jobs.append(dict(id=jid("awk", cfg), func="zzH_C10_awk", cfg=cfg))
    for delim in (",", "ab"):
        for kind, nmax in ((0, 4 if q else 6), (1, 3 if q else 5)):
            cfg = dict(kind=kind, nmin=0, nmax=nmax)
            jobs.append(dict(id=jid("str" + delim, cfg), func="zzH_C10_str", cfg=cfg, cfgs=dict(delim=delim)))
    cfg = dict(nmin=0, nmax=4 if q else 6)
    jobs.append(dict(id=jid("range", cfg), func="zzH_C10_range", cfg=cfg))
    cfg = dict(ntmax=3 if q else 4, lim=4 if q else 7)
    jobs.append(dict(id=jid("transform", cfg), func="zzH_C10_transform", cfg=cfg))
    jobs.append(dict(id="nth", func="zzH_C10_nth", cfg={}))
    for rx in ("[:,]", "[:,]+"):
        jobs.append(dict(id="re:" + rx, func="zzH_C10_re", cfg=dict(nmax=4 if q else 6), cfgs=dict(regex=rx)))
    return [src_suite("src", jobs)]
