from common import *

META = dict(
    explanation="FuzzyMatchV2's score is compared by the solver with (1) a naive evaluation of the documented recurrence over the whole "
                "line (explicit matrices, no window/slab/fast path) and (2) the best score over all alignments that exist; V1, exact, prefix, "
                "suffix are compared with the score of the occurrence they report, boundary and equal with their closed forms.",
    functions=["algo.FuzzyMatchV2", "algo.FuzzyMatchV1", "algo.calculateScore", "algo.exactMatchNaive", "algo.PrefixMatch", "algo.SuffixMatch",
               "algo.EqualMatch", "algo.bonusFor", "algo.Init", "algo.bonusAt", "algo.asciiFuzzyIndex"],
    outside=["longer texts/patterns", "runes outside zzSigma", "whether the recurrence is a good ranking"],
    models=["internal/bytealg.IndexByte model", "unicode.* lifted over finite domains"],
    assumptions=["Algo preconditions on the pattern", "oracle constants (16, -3, -1, 8, 7, 4, x2; white/delimiter bonuses per scheme) are transcribed from the documentation, not read from the package"],
)


def suites(tier):
    jobs = []
    if tier == "quick":
        nmax, mmax = 3, 2
    else:
        nmax, mmax = 4, 3
    for cfg in product(scheme=[0, 1, 2], cs=[0], fwd=[0, 1]):
        cfg.update(norm=0, pos=0, rep=0, pk=0, slab=0, best=1, nmin=0, nmax=nmax, mmin=1, mmax=mmax, c16=0, c32=0)
        jobs.append(dict(id=jid("v2", cfg), func="zzH_C03_v2", cfg=cfg))
    if tier != "quick":
        # one character longer for two-character patterns, default scheme
        for cfg in product(scheme=[0], cs=[0], fwd=[0, 1]):
            cfg.update(norm=0, pos=0, rep=0, pk=0, slab=0, best=1, nmin=5, nmax=5, mmin=1, mmax=2, c16=0, c32=0)
            jobs.append(dict(id=jid("v2long", cfg), func="zzH_C03_v2", cfg=cfg))
    # single-character patterns on longer lines (window trimming of the ASCII pre-filter)
    for cfg in product(scheme=[0], cs=[0], fwd=[0, 1]):
        cfg.update(norm=0, pos=0, rep=3, pk=2, slab=0, best=1, nmin=4, nmax=4 if tier == "quick" else 5, mmin=1, mmax=1 if tier == "quick" else 2, c16=0, c32=0)
        jobs.append(dict(id=jid("v2tiny", cfg), func="zzH_C03_v2", cfg=cfg))
    # non-ASCII runes
    for cfg in product(scheme=[0], cs=[0], norm=[0, 1], fwd=[1]):
        cfg.update(pos=0, rep=2, pk=1, slab=0, best=1, nmin=1, nmax=2 if tier == "quick" else 3, mmin=1, mmax=2, c16=0, c32=0)
        jobs.append(dict(id=jid("v2runes", cfg), func="zzH_C03_v2", cfg=cfg))
    # dirty scratch slab (arbitrary stale contents): the score must still be the recurrence's
    for cfg in product(scheme=[0], cs=[0], fwd=[0, 1], c16=[16, 40]):
        cfg.update(norm=0, pos=0, rep=0, pk=0, slab=1, best=0, nmin=1, nmax=nmax, mmin=1, mmax=mmax, c32=12)
        jobs.append(dict(id=jid("v2slab", cfg), func="zzH_C03_v2", cfg=cfg))
    occn = nmax if tier == "quick" else 5
    for cfg in product(kind=[0, 2, 3, 5], scheme=[0, 1], fwd=[0, 1]):
        cfg.update(cs=0, norm=0, pos=0, rep=0, pk=0, nmin=0, nmax=occn, mmin=1, mmax=mmax)
        jobs.append(dict(id=jid("occ", cfg), func="zzH_C03_occ", cfg=cfg))
    for cfg in product(kind=[1, 4], scheme=[0, 1, 2], fwd=[0, 1]):
        cfg.update(cs=0, norm=0, pos=0, rep=0, pk=0, nmin=0, nmax=occn, mmin=1, mmax=mmax)
        jobs.append(dict(id=jid("closed", cfg), func="zzH_C03_closed", cfg=cfg))
    return [dict(ALGO, name="algo", jobs=jobs)]
