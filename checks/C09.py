from common import *

META = dict(
    explanation="Leaf helpers only: vset/vmove (cursor stays on an existing result, --cycle and layout direction), selectItem/deselectItem/toggleItem "
                "(multi-select rules under every operation sequence up to the bound), delChar. The action dispatcher (doAction closure) is outside.",
    functions=["fzf.(*Terminal).vset", "fzf.(*Terminal).vmove", "fzf.(*Terminal).currentItem", "fzf.(*Terminal).selectItem", "fzf.(*Terminal).deselectItem",
               "fzf.(*Terminal).toggleItem", "fzf.(*Terminal).delChar", "fzf.(*Terminal).UpdateList (selection handling)", "util.Constrain"],
    outside=["the editing / navigation / select-all logic inside the doAction closure (about 1000 lines, ~40 captured variables, calls into the renderer)",
             "window heights, paging, --track"],
    models=["time.Now stub returning strictly increasing instants"],
    assumptions=[],
)


def suites(tier):
    q = tier == "quick"
    jobs = []
    for cfg in product(cycle=[0, 1], reverse=[0, 1]):
        cfg.update(nmax=3 if q else 7, lim=4 if q else 9)
        jobs.append(dict(id=jid("nav", cfg), func="zzH_C09_nav", cfg=cfg))
    cfg = dict(steps=3 if q else 6)
    jobs.append(dict(id=jid("sel", cfg), func="zzH_C09_sel", cfg=cfg))
    cfg = dict(nmax=3 if q else 7)
    jobs.append(dict(id=jid("del", cfg), func="zzH_C09_del", cfg=cfg))
    jobs.append(dict(id="update", func="zzH_C09_update", cfg={}))
    return [src_suite("src", jobs)]
