from common import *

META = dict(
    explanation="The action dispatcher of Terminal.Loop (the doAction closure and its toggle helper, lifted verbatim from the current source) is driven through "
                "sequences of editing actions against a readline-style reference editor (text, cursor, kill buffer as revealed by yank; characters symbolic for the "
                "character-wise actions, a 4-symbol alphabet incl. a two-byte letter for the word-wise ones, whose boundaries Go's regexp decides natively) and through "
                "sequences of selection / navigation actions against the multi-select and cursor rules (current results a sub-list of the loaded items, limit, --cycle, layout). "
                "Plus the leaf helpers: vset/vmove, selectItem/deselectItem/toggleItem under operation sequences, delChar, UpdateList's selection handling.",
    functions=["fzf.(*Terminal).vset", "fzf.(*Terminal).vmove", "fzf.(*Terminal).currentItem", "fzf.(*Terminal).selectItem", "fzf.(*Terminal).deselectItem",
               "fzf.(*Terminal).toggleItem", "fzf.(*Terminal).delChar", "Terminal.Loop: doAction closure (lifted; 41 of its action cases are exercised)", "Terminal.Loop: toggle closure (lifted)",
               "fzf.(*Terminal).rubout", "fzf.findLastMatch", "fzf.findFirstMatch", "fzf.(*Terminal).constrain (single-line mode)", "fzf.(*Terminal).maxItems", "fzf.(*Terminal).UpdateList (selection handling)", "util.Constrain"],
    outside=["the key loop around doAction (event decoding, doActions chaining, truncateQuery, change detection, the search request): plain code in the body of Loop, not a function the encoder can enter",
             "actions that run commands, change layout or preview, history, jump, mouse; transform-* actions", "multi-line items, --wrap, --gap, scroll-off in constrain", "--track",
             "regular expressions on symbolic strings (word-wise actions run on concrete alphabets)"],
    models=["time.Now stub returning strictly increasing instants", "tui.Window stub providing Height only", "regexp.Compile / FindStringIndex / FindAllStringIndex executed natively by Go's regexp on concrete strings"],
    assumptions=[],
)


def suites(tier):
    q = tier == "quick"
    jobs = []
    for cfg in product(cycle=[0, 1], reverse=[0, 1]):
        cfg.update(nmax=3 if q else 7, lim=4 if q else 9)
        jobs.append(dict(id=jid("nav", cfg), func="zzH_C09_nav", cfg=cfg))
    cfg = dict(steps=3 if q else 6)
    jobs.append(dict(id=jid("sel", cfg), func="zzH_C09_sel", cfg=cfg))
    cfg = dict(nmax=3 if q else 7)
    jobs.append(dict(id=jid("del", cfg), func="zzH_C09_del", cfg=cfg))
    jobs.append(dict(id="update", func="zzH_C09_update", cfg={}))
    # the action dispatcher itself (doAction, lifted from Terminal.Loop)
    cfg = dict(words=0, nmax=2 if q else 3, steps=3 if q else 4)
    jobs.append(dict(id=jid("edit", cfg), func="zzH_C09_edit", cfg=cfg))
    cfg = dict(words=1, nmax=2 if q else 3, steps=2 if q else 3)
    jobs.append(dict(id=jid("edit", cfg), func="zzH_C09_edit", cfg=cfg))
    for cfg in product(cycle=[0, 1], reverse=[0, 1]):
        diag = cfg["cycle"] == cfg["reverse"]
        if q:
            cfg.update(items=3, multimax=2, height=4, steps=2 if diag else 1)
        else:
            cfg.update(items=3 if diag else 4, multimax=2 if diag else 3, height=4, steps=3 if diag else 2)
        jobs.append(dict(id=jid("acts", cfg), func="zzH_C09_acts", cfg=cfg))
    return [src_suite("src", jobs)]
