from common import *

META = dict(
    explanation="Queries are generated from the documented grammar (AND groups, OR alternatives, six term kinds, negation, mixed case, accents); "
                "parseTerms/BuildPattern must read them exactly as documented (per-term smart-case, per-term accent rule, quote flip under --exact, "
                "sortable/cacheable flags), and parse + real matchers together must report a line iff it satisfies the query.",
    functions=["fzf.parseTerms", "fzf.BuildPattern", "fzf.(*Pattern).MatchItem", "fzf.(*Pattern).extendedMatch", "fzf.(*Pattern).iter", "fzf.(*Pattern).buildCacheKey",
               "fzf.buildResult", "algo.* matchers", "algo.NormalizeRunes", "strings.ReplaceAll/ToLower/HasPrefix/HasSuffix (real code)"],
    outside=["TAB characters typed into a query", "ill-formed queries (lone operators)", "the filter driver in Run (goroutines)", "queries/lines beyond the bounds"],
    models=["(*regexp.Regexp).Split for the literal pattern \" +\" -> zzv.M_regexp_SplitSpaces (refuses any other pattern)", "strings.Index naive model"],
    assumptions=["term texts over {a,b,A,é}; lines over {a,b,A,e,é,space}"],
)


def suites(tier):
    q = tier == "quick"
    jobs = []
    shapes = [(2, 1, 1)] if q else [(2, 1, 2), (1, 2, 2), (3, 1, 1)]
    for cfg in product(fuzzy=[0, 1], case=[0, 1, 2], norm=[0, 1]):
        for sets, alts, ln in shapes:
            c2 = dict(cfg, sets=sets, alts=alts, len=ln)
            jobs.append(dict(id=jid("parse", c2), func="zzH_C01_parse", cfg=c2))
    if q:
        cfg = dict(fuzzy=1, case=0, norm=1, sets=1, alts=2, len=2)
        jobs.append(dict(id=jid("parse", cfg), func="zzH_C01_parse", cfg=cfg))
    for cfg in product(fuzzy=[0, 1], case=[0], norm=[0, 1]):
        for sets, alts, ln, nmax in ([(1, 1, 1, 2)] if q else [(2, 1, 1, 2), (1, 2, 1, 3), (1, 1, 2, 3)]):
            c2 = dict(cfg, sets=sets, alts=alts, len=ln, nmax=nmax)
            jobs.append(dict(id=jid("glue", c2), func="zzH_C01_glue", cfg=c2))
    for cfg in product(fuzzy=[0, 1], case=[0, 1, 2], norm=[0, 1]):
        cfg.update(qmax=2, nmax=2 if q else 3)
        jobs.append(dict(id=jid("noext", cfg), func="zzH_C01_noext", cfg=cfg))
    return [src_suite("src", jobs)]
