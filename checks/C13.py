from common import *

META = dict(
    explanation="Sequential core only. Push and Snapshot hold ChunkList.mutex from first to last instruction, so every loader/coordinator "
                "interleaving is some sequence of these operations: all sequences up to the bound are explored and every snapshot ever returned "
                "must still hold, at the end, exactly the items it held when returned. ChunkCache operations are explored against a dictionary model.",
    functions=["fzf.(*ChunkList).Push", "fzf.(*ChunkList).Snapshot", "fzf.CountItems", "fzf.(*ChunkCache).{Add,Lookup,Search,retire,Clear}"],
    outside=["the Go memory model / data races", "the cancelled/countChan/resultChan protocol of Matcher.scan", "EventBox", "that a superseded search never publishes (goroutines are not encoded)"],
    models=["sync.Mutex no-op: atomicity of critical sections assumed (checked only by reading: Lock first, Unlock on every exit)"],
    assumptions=["chunkSize scaled to 3 (chunk list) / 5 (cache, so that queryCacheMax = 1)"],
)


def suites(tier):
    q = tier == "quick"
    jobs = []
    for tail in ((0, 2) if q else (0, 1, 2, 4, 5)):
        cfg = dict(tail=tail, ops=7 if q else 9)
        jobs.append(dict(id=jid("iso", cfg), func="zzH_C06_chunks", cfg=cfg))
    s1 = src_suite("chunks", jobs, chunkSize=3)
    cfg = dict(ops=3 if q else 4)
    s2 = src_suite("cache", [dict(id=jid("cache", cfg), func="zzH_C13_cache", cfg=cfg)], chunkSize=5)
    return [s1, s2]
