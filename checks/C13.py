from common import *

META = dict(
    explanation="Sequential core only. Push and Snapshot hold ChunkList.mutex from first to last instruction, so every loader/coordinator "
                "interleaving is some sequence of these operations: all sequences up to the bound are explored and every snapshot ever returned "
                "must still hold, at the end, exactly the items it held when returned. ChunkCache operations are explored against a dictionary model.",
    functions=["fzf.(*ChunkList).Push", "fzf.(*ChunkList).Snapshot", "fzf.CountItems", "fzf.(*ChunkCache).{Add,Lookup,Search,retire,Clear}", "fzf.(*Matcher).Loop / scan / Reset (Loop as a deterministic coroutine, scan's workers inline)"],
    outside=["the Go memory model / data races", "the cancelled/countChan/resultChan protocol of Matcher.scan", "EventBox", "that a superseded search never publishes (goroutines are not encoded)"],
    models=["sync.Mutex no-op: atomicity of critical sections assumed (checked only by reading: Lock first, Unlock on every exit)"],
    assumptions=["chunkSize scaled to 3 (chunk list) / 5 (cache, so that queryCacheMax = 1)"],
)


def suites(tier):
    q = tier == "quick"
    jobs = []
    for tail in ((0, 2) if q else (0, 1, 2, 4, 5)):
        cfg = dict(tail=tail, ops=(8 if tail else 7) if q else 9)
        jobs.append(dict(id=jid("iso", cfg), func="zzH_C06_chunks", cfg=cfg))
    s1 = src_suite("chunks", jobs, chunkSize=3)
    cfg = dict(ops=2 if q else 4)
    s2 = src_suite("cache", [dict(id=jid("cache", cfg), func="zzH_C13_cache", cfg=cfg)], chunkSize=5)
    # every result Matcher.Loop publishes is the filter of the snapshot its search was started on
    ljobs = []
    for tail in (0, 3):  # tail 0 with 4 events is the history that exposed defect K
        cfg = dict(tail=tail, initial=4, steps=4, symbolic=0)
        ljobs.append(dict(id=jid("loop", cfg), func="zzH_C08_loop", cfg=cfg, go_inline=True, coroutine_funcs=["Loop"]))
    s3 = src_suite("loop", ljobs, chunkSize=5)
    return [s1, s2, s3]
