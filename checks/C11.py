from common import *

META = dict(
    explanation="nextAnsiEscapeSequence is compared on arbitrary byte strings with a direct leftmost-first matcher of the regex in its doc "
                "comment; extractColor's kept text with the input minus those matches; span offsets must be ordered, non-overlapping, in range.",
    functions=["fzf.nextAnsiEscapeSequence", "fzf.matchControlSequence", "fzf.matchOperatingSystemCommand", "fzf.isCtrlSeqStart", "fzf.extractColor",
               "fzf.interpretCode", "fzf.parseAnsiCode", "unicode/utf8.DecodeRuneInString", "unicode/utf8.DecodeLastRuneInString"],
    outside=["strings longer than the bound", "colour merging in colorOffsets (display side)", "SGR lists with empty or truncated parameters, or mixing ';' and ':' separators (not well-formed)"],
    models=["strings.Builder executed as real code (copyCheck skipped)", "utf8.* executed as real code"],
    assumptions=["the reference regex is the one in the function's doc comment (a Go string literal), plus the OSC-8 `ESC ] 8 ; ; ESC` close form documented in matchOperatingSystemCommand"],
)


def suites(tier):
    jobs = []
    nscan = 4 if tier == "quick" else 6
    for cfg in product(bytes=[0, 2]):
        cfg.update(nmin=0, nmax=nscan if cfg["bytes"] == 0 else nscan + 1)
        jobs.append(dict(id=jid("scan", cfg), func="zzH_C11_scan", cfg=cfg))
    nstrip = 4 if tier == "quick" else 6
    for cfg in product(bytes=[1, 2], state=[0, 1]):
        cfg.update(nmin=0, nmax=nstrip)
        jobs.append(dict(id=jid("strip", cfg), func="zzH_C11_strip", cfg=cfg))
    for cfg in product(bytes=[0], state=[0, 1]):
        cfg.update(nmin=0, nmax=3 if tier == "quick" else 4)
        jobs.append(dict(id=jid("strip", cfg), func="zzH_C11_strip", cfg=cfg))
    cfg = dict(payload=2 if tier == "quick" else 3, tail=1 if tier == "quick" else 2)
    jobs.append(dict(id=jid("osc", cfg), func="zzH_C11_osc", cfg=cfg))
    for colon in (0, 1):
        cfg = dict(colon=colon, items=2 if tier == "quick" else 3)
        jobs.append(dict(id=jid("sgr", cfg), func="zzH_C11_sgr", cfg=cfg))
    cfg = dict(items=4 if tier == "quick" else 6)
    jobs.append(dict(id=jid("color", cfg), func="zzH_C11_color", cfg=cfg))
    return [src_suite("src", jobs)]
