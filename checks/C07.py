from common import *

META = dict(
    explanation="Function-level pieces: the streaming-filter pusher closure of Run and the two item-builder closures of Run are lifted verbatim from the "
                "current source (free variables become fields of an environment struct) and executed on symbolic records: what is printed must be the "
                "original record; Item.AsString must give back the input bytes, also under --with-nth.",
    functions=["Run: streaming filter pusher (lifted)", "Run: item builder (lifted)", "Run: --with-nth item builder (lifted)", "fzf.(*Item).AsString", "fzf.(*Terminal).output", "fzf.(*Terminal).sortSelected", "fzf.(*Pattern).MatchItem",
               "fzf.Tokenize", "util.(*Chars).TrimTrailingWhitespaces"],
    outside=["--print0 framing in main.go's printer", "exit codes produced by the render loop", "--ansi colour processing inside the builders",
             "Run's own wiring (goroutines, event box)"],
    models=["util.EventBox.Set executed as real code over no-op sync primitives", "--with-nth transformer = harness function keeping field 2 (the real one is built from a regex template)"],
    assumptions=["records over {a,b,space,tab}; query 'a'"],
)


def suites(tier):
    import os
    q = tier == "quick"
    jobs = []
    for wn, field in ((0, 1), (1, 1), (1, 2)):
        cfg = dict(withnth=wn, field=field, records=2 if q else 3, nmax=3 if q else 4)
        jobs.append(dict(id=jid("stream", cfg), func="zzH_C07_stream", cfg=cfg))
    for wn, field in ((0, 1), (1, 1), (1, 2)):
        cfg = dict(withnth=wn, field=field, records=3, nmax=2 if q else 3, headers=2)
        jobs.append(dict(id=jid("build", cfg), func="zzH_C06_build", cfg=cfg))
    jobs.append(dict(id="output", func="zzH_C07_output", cfg={}))
    for colored in (0, 1):
        for kind in ((2,) if q else (2, 1, 0)):
            if os.environ.get("VERIF_DBG_KIND") and str(kind) != os.environ["VERIF_DBG_KIND"]:
                continue
            cfg = dict(colored=colored, bytes=kind, nmax=(3 if kind == 2 else 2) if q else {2: 4, 1: 3, 0: 2}[kind], recs=2 if kind == 2 else 1)
            jobs.append(dict(id=jid("ansi", cfg), func="zzH_C07_ansi", cfg=cfg))
    import os
    if os.environ.get("VERIF_ONLY_JOBS"):
        jobs = [j for j in jobs if os.environ["VERIF_ONLY_JOBS"] in j["id"]]
    return [src_suite("src", jobs)]
