from common import *

META = dict(
    explanation="FuzzyMatchV1/V2 executed symbolically from go/ssa on symbolic texts and patterns; a reported match must "
                "carry a witness (range, positions, folded characters), a reported non-match must have no witness; every Go "
                "panic site (index, slice, nil, make) on the way is an obligation.",
    functions=["algo.FuzzyMatchV2", "algo.FuzzyMatchV1", "algo.asciiFuzzyIndex", "algo.trySkip", "algo.isAscii", "algo.calculateScore",
               "algo.alloc16", "algo.alloc32", "algo.posArray", "algo.Init", "algo.bonusFor", "algo.charClassOf*", "algo.normalizeRune",
               "util.ToChars", "util.checkAscii", "util.RunesToChars", "util.(*Chars).{Get,Length,Bytes,IsBytes,CopyRunes,optionalRunes}"],
    bounds=dict(quick="bytes/ASCII runes: N<=4, M<=2 ...", thorough="..."),
    outside=["texts/patterns longer than the bounds", "runes outside the alphabet zzSigma", "int16 score overflow (needs M>=1200)"],
    models=["internal/bytealg.IndexByte -> zzv.M_bytealg_IndexByte (validated natively each run)",
            "unicode.IsSpace/IsUpper/IsLower/IsLetter/IsNumber/To/ToLower evaluated natively over the finite domain of the argument"],
    assumptions=["Algo preconditions: pattern lower-cased if case-insensitive, normalised if normalize"],
)


def suites(tier):
    jobs = []
    if tier == "quick":
        nmax, mmax = 3, 2
    else:
        nmax, mmax = 5, 3
    for cfg in product(algo=[1, 2], cs=[0, 1], fwd=[0, 1], pos=[0, 1], rep=[0], slab=[0]):
        # without positions the thorough tier stops one character earlier (same code up to the back-trace)
        nm = nmax if (tier == "quick" or cfg["pos"] == 1) else nmax - 1
        cfg.update(norm=0, pk=0, scheme=0, nmin=0, nmax=nm, mmin=1, mmax=mmax, c16=0, c32=0)
        jobs.append(dict(id=jid("fuzzy", cfg), func="zzH_C02_fuzzy", cfg=cfg))
    for cfg in product(kind=[0, 1, 2, 3, 4], cs=[0, 1], fwd=[0, 1], rep=[0]):
        cfg.update(norm=0, pos=0, slab=0, pk=0, scheme=0, nmin=0, nmax=nmax + 1, mmin=1, mmax=mmax, c16=0, c32=0)
        jobs.append(dict(id=jid("exact", cfg), func="zzH_C02_exact", cfg=cfg))
    # non-ASCII runes (every class the code distinguishes), with and without normalisation
    rn, rm = (2, 2) if tier == "quick" else (3, 2)
    for cfg in product(algo=[1, 2], cs=[0], norm=[0, 1], fwd=[1], pos=[1]):
        cfg.update(rep=2, slab=0, pk=1, scheme=0, nmin=1, nmax=rn, mmin=1, mmax=rm, c16=0, c32=0)
        jobs.append(dict(id=jid("fuzzy-runes", cfg), func="zzH_C02_fuzzy", cfg=cfg))
    for cfg in product(kind=[0, 1, 2, 3, 4], cs=[0], norm=[0, 1], fwd=[1]):
        cfg.update(rep=2, pos=0, slab=0, pk=1, scheme=0, nmin=1, nmax=rn, mmin=1, mmax=rm, c16=0, c32=0)
        jobs.append(dict(id=jid("exact-runes", cfg), func="zzH_C02_exact", cfg=cfg))
    # longer patterns over a tiny alphabet (self-overlapping patterns, restarts of the naive scan)
    tn, tm = (5, 3) if tier == "quick" else (6, 4)
    for cfg in product(kind=[0, 1], cs=[0, 1], fwd=[0, 1]):
        cfg.update(rep=3, norm=0, pos=0, slab=0, pk=2, scheme=0, nmin=tm, nmax=tn, mmin=tm, mmax=tm, c16=0, c32=0)
        jobs.append(dict(id=jid("exact-tiny", cfg), func="zzH_C02_exact", cfg=cfg))
    for cfg in product(algo=[1] if tier == "quick" else [1, 2], cs=[0], fwd=[0, 1], pos=[1]):
        if cfg["algo"] == 2:   # V2 is the expensive one: N <= 5, M <= 3
            cfg.update(rep=3, norm=0, slab=0, pk=2, scheme=0, nmin=4, nmax=5, mmin=2, mmax=3, c16=0, c32=0)
        else:
            cfg.update(rep=3, norm=0, slab=0, pk=2, scheme=0, nmin=tn - 1, nmax=tn, mmin=2, mmax=tm, c16=0, c32=0)
        jobs.append(dict(id=jid("fuzzy-tiny", cfg), func="zzH_C02_fuzzy", cfg=cfg))
    return [dict(ALGO, name="algo", jobs=jobs)]
