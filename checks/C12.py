from common import *

UTIL = dict(pkg=MOD + "/src/util", test_pkg="./src/util", patterns="./src/util", harness_dirs=["util"])

META = dict(
    explanation="Quoting functions only: Executor.QuoteEntry (sh/bash escaper and fish escaper) and escapeSingleQuote are applied to every entry "
                "inside the bound over an alphabet of shell metacharacters; a model of POSIX (and fish single-quote) word lexing must read the result "
                "back as exactly one word equal to the entry with no active metacharacter.",
    functions=["util.NewExecutor", "util.(*Executor).QuoteEntry", "fzf.escapeSingleQuote", "fzf.replacePlaceholder (whole function, concrete templates)", "fzf.parsePlaceholder", "fzf.runTmux (argument re-quoting; runProxy modelled in the engine, real natively with a fake tmux on PATH)"],
    outside=["templates other than the fixed list ({}, {+}, {q}, {n}, {+n}, \\{}, {1}, each optionally after {r})", "{f} temp files", "the export lines and script assembly inside runProxy", "the real shells (used only in the seeded demonstrations)"],
    models=["regexp methods on concrete strings (the template) are run natively with Go's regexp","strings.NewReplacer/(*Replacer).Replace -> zzv.M_Replacer_Replace (left-to-right, argument-order priority; validated natively)", "os.Getenv -> job configuration", "runProxy -> capture of the command line (engine only)", "os.Getwd -> \"/\"",
            "shell lexing reference zzShWords (trusted; written from POSIX sh quoting rules and fish's two-escape rule)"],
    assumptions=["entries without NUL over {' \\\\ a space $ ` \" newline ; *}"],
)


def suites(tier):
    q = tier == "quick"
    jobs = []
    for shell, fish in (("/bin/sh", 0), ("/usr/bin/fish", 1), ("", 0)):
        cfg = dict(fish=fish, nmax=4 if q else 6)
        jobs.append(dict(id="quote:%s" % (shell or "default"), func="zzH_C12_quote", cfg=cfg, cfgs={"env:SHELL": shell, "withshell": ""}))
    cfg = dict(fish=1, nmax=3 if q else 4)
    jobs.append(dict(id="quote:withshell-fish", func="zzH_C12_quote", cfg=cfg, cfgs={"env:SHELL": "/bin/sh", "withshell": "/opt/fish -c"}))
    s1 = dict(UTIL, name="util", jobs=jobs)
    jobs2 = [dict(id="esq", func="zzH_C12_esq", cfg=dict(nmax=4 if q else 8)),
             dict(id="expand", func="zzH_C12_expand", cfg=dict(nmax=2 if q else 3), cfgs={"env:SHELL": "/bin/sh"})]
    for shell, ws in (("/bin/sh", ""), ("/usr/bin/fish", ""), ("/bin/sh", "/opt/fish -c")):
        jobs2.append(dict(id="tmux:%s:%s" % (shell, ws or "-"), func="zzH_C12_tmux", cfg=dict(nmax=3 if q else 6), cfgs={"env:SHELL": shell, "withshell": ws}))
    return [s1, src_suite("src", jobs2)]
