from common import *
import os, re

META = dict(
    explanation="compareRanks (amd64 uint64 fast path and the portable loop) on fully symbolic results against the lexicographic rank order; "
                "Merger.Get/mergedGet for arbitrary probe orders against the stable global order; PassMerger with partial first/last chunks; sliceChunks.",
    functions=["fzf.compareRanks (result_x86.go)", "compareRanks of result_others.go (tag-stripped copy)", "fzf.buildResult", "util.(*Chars).TrimLength", "sort.Sort(ByOrder)", "fzf.NewMerger", "fzf.(*Merger).Get", "fzf.(*Merger).mergedGet",
               "fzf.PassMerger", "fzf.(*Merger).FindIndex", "fzf.CountItems", "fzf.(*Matcher).sliceChunks", "fzf.(*Matcher).Loop / scan (coroutine / inline workers), sort.Sort(ByRelevance)"],
    outside=["that each partition's list really is sorted (sort.Sort on ByRelevance)", "goroutine scheduling and channel hand-off in Matcher.scan", "list sizes beyond the bounds",
             "non-ASCII lines in buildResult (pathname compares a byte index with a character index)"],
    models=["unsafe uint64 load over [4]uint16 = little-endian concatenation of the four cells"],
    assumptions=["chunkSize scaled to 3 for PassMerger"],
)


def suites(tier):
    q = tier == "quick"
    jobs = []
    for tac in (0, 1):
        jobs.append(dict(id="cmp:tac=%d" % tac, func="zzH_C04_cmp", cfg=dict(tac=tac)))
        for srt in (0, 1):
            cfg = dict(tac=tac, sorted=srt, lists=2 if q else 3, perlist=2)
            jobs.append(dict(id=jid("merge", cfg), func="zzH_C04_merge", cfg=cfg))
        cfg = dict(tac=tac, chunks=3 if q else 4)
        jobs.append(dict(id=jid("pass", cfg), func="zzH_C04_pass", cfg=cfg))
        # a list long enough for probes far ahead of the merged prefix
        cfg = dict(tac=tac, total=1200 if q else 3000)
        jobs.append(dict(id=jid("jump", cfg), func="zzH_C04_jump", cfg=cfg, unwind=2000000))
    for crit in range(6):
        cfg = dict(criterion=crit, nmax=3 if q else 5)
        jobs.append(dict(id=jid("key", cfg), func="zzH_C04_key", cfg=cfg))
    cfg = dict(chunks=12 if q else 70, parts=5 if q else 32)
    jobs.append(dict(id=jid("slice", cfg), func="zzH_C04_slice", cfg=cfg))
    # order of the published list after sort toggles / query edits with the per-chunk cache in play
    # (one full chunk of 10, queryCacheMax = 2): --no-sort results stay in input order
    cfg = dict(tail=0, initial=10, steps=3 if q else 4, symbolic=0)
    ljobs = [dict(id=jid("loop", cfg), func="zzH_C08_loop", cfg=cfg, go_inline=True, coroutine_funcs=["Loop"])]
    return [src_suite("src", jobs, chunkSize=3), src_suite("loop", ljobs, chunkSize=10)]
