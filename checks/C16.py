from common import *

META = dict(
    explanation="handleHttpRequest is executed on requests assembled from tokens with symbolic parts (method, header order, key value and case, "
                "content length, body, early close), delivered through a connection stub cut at up to 2/3 offsets chosen among the places where framing matters (inside each line, between CR and LF, after a line, after the first and before the last byte) and read by the real bufio.Scanner "
                "with the function's own split closure. Assertions: no action and no state without the exact key, GET never changes state, framing errors "
                "are rejected without side effect, every answer starts with an HTTP status line.",
    functions=["fzf.(*httpServer).handleHttpRequest (incl. its split closure)", "bufio.(*Scanner).Scan/Text (real code)", "crypto/subtle.ConstantTimeCompare (real code)",
               "strings.SplitN/ToLower/TrimSpace/HasPrefix/Trim", "strconv.Atoi", "fzf.parseGetParams", "fzf.startHttpServer (net.Listen modelled)", "fzf.parseListenAddress", "fzf.listenAddress.IsLocal"],
    outside=["real sockets, timeouts, 'cannot wedge'", "the real listener and accept goroutine (modelled in the engine: one scripted connection, accept loop inline; the native replays use real loopback TCP)", "that a POST body executes like --bind (action parsing is regex-driven)", "requests longer than the bound"],
    models=["net.Listen replaced by a listener handing out one scripted connection, then net.ErrClosed; `go` accept loop executed inline", "errors.Is without the reflection-based comparability test", "net.Conn stub delivering the request cut at chosen offsets", "getRegex.FindStringSubmatch literal-keyed model", "parseSingleActionList replaced by zzM_parseSingleActionList (only 'up' is an action)",
            "select with a channel send = the send succeeds (buffered channel)", "fmt.Sprintf minimal model", "time.Now/After stubs"],
    assumptions=["header values and keys over small alphabets; one-digit content lengths"],
)


def suites(tier):
    q = tier == "quick"
    jobs = []
    for key in ("", "k1"):
        cfg = dict(headers=2 if q else 3, body=3 if q else 4, cuts=(2 if key else 1) if q else 2)
        jobs.append(dict(id="http:key=%s" % (key or "none"), func="zzH_C16_http", cfg=cfg, cfgs=dict(key=key)))
    for i, key in enumerate(("", "k1", " ", "k1 ")):
        jobs.append(dict(id="start:key%d" % i, func="zzH_C16_start", cfg={}, cfgs={"env:FZF_API_KEY": key}, go_inline=True))
    jobs.append(dict(id="status", func="zzH_C16_status", cfg={}))
    jobs.append(dict(id="addr", func="zzH_C16_addr", cfg=dict(nmax=4 if q else 7)))
    return [src_suite("src", jobs)]
