from common import *

META = dict(
    explanation="Sequential pieces only. Sequences of queries (as successive keystrokes produce) are run through Pattern.Match on a full chunk with a "
                "shared ChunkCache and pattern cache; after each query the list must equal an uncached evaluation (cache narrowing must be invisible). "
                "BuildPattern's cacheable flag / cache key are checked on grammar-generated queries (shared harness with C01).",
    functions=["fzf.(*Pattern).Match", "fzf.(*Pattern).matchChunk", "fzf.(*ChunkCache).{Add,Lookup,Search}", "fzf.BuildPattern", "fzf.(*Pattern).buildCacheKey", "fzf.(*Pattern).MatchItem", "fzf.(*Matcher).Loop", "fzf.(*Matcher).scan", "fzf.(*Matcher).Reset", "fzf.NewMatcher", "util.EventBox (real code over no-op locks and a cooperative sync.Cond)"],
    outside=["everything timed: coordinator event handling, reader progress, terminal UpdateList ordering, cancellation inside scan", "which of two simultaneously pending requests Matcher.Loop serves (map order)", "real goroutine scheduling: Loop runs as a deterministic coroutine, scan's workers run inline"],
    models=["regexp Split(\" +\") model", "sync.Mutex no-op"],
    assumptions=["chunkSize scaled to 10 (queryCacheMax = 2)", "ten short lines (some characters symbolic), queries from a fixed list of 12 covering plain/anchored/negated/OR/AND terms"],
)


def suites(tier):
    q = tier == "quick"
    jobs = []
    for fuzzy in (1, 0):
        cfg = dict(fuzzy=fuzzy, symbolic=1 if q else 3, steps=3, queries=6 if q else 12)
        jobs.append(dict(id=jid("cache", cfg), func="zzH_C08_cache", cfg=cfg))
    for cfg in product(fuzzy=[0, 1], case=[0], norm=[1]):
        for sets, alts, ln in ([(2, 1, 1)] if q else [(2, 1, 2), (1, 2, 2), (3, 1, 1)]):
            c2 = dict(cfg, sets=sets, alts=alts, len=ln)
            jobs.append(dict(id=jid("key", c2), func="zzH_C01_parse", cfg=c2))
    s1 = src_suite("src", jobs, chunkSize=10)
    ljobs = []
    for tail in (0, 3):
        cfg = dict(tail=tail, initial=4, steps=3 if q else 4, symbolic=0 if q else 1)
        ljobs.append(dict(id=jid("loop", cfg), func="zzH_C08_loop", cfg=cfg, go_inline=True, coroutine_funcs=["Loop"]))
    s2 = src_suite("loop", ljobs, chunkSize=5)
    # one full chunk of 10 (queryCacheMax = 2): cached per-chunk lists with more than one match
    cfg = dict(tail=0, initial=10, steps=3 if q else 4, symbolic=0)
    s3 = src_suite("loop10", [dict(id=jid("loop10", cfg), func="zzH_C08_loop", cfg=cfg, go_inline=True, coroutine_funcs=["Loop"])], chunkSize=10)
    return [s1, s2, s3]
