from common import *

META = dict(
    explanation="Reader.feed is executed with the two buffer constants scaled down (3 / 6) against a nondeterministic reader (every cut of the "
                "stream into reads, every error class, under the *os.File contract) and compared at the end with a stream-split oracle; "
                "ChunkList.Push/Snapshot/CountItems with chunkSize scaled to 3 for every push/snapshot interleaving up to the bound.",
    functions=["fzf.(*Reader).feed", "fzf.(*ChunkList).Push", "fzf.(*ChunkList).Snapshot", "fzf.CountItems", "fzf.(*Chunk).push", "fzf.(*ChunkCache).retire"],
    bounds=dict(quick="<=3 reads of <=3 bytes over {delim,a,\\r}; <=6 chunk-list operations, tail in {0,2}",
                thorough="<=4 reads; <=8 operations, tail in {0,1,2,4}"),
    outside=["full-size buffers (parametricity argument, DESIGN §2.4)", "the event poller", "Run's wiring of reader to chunk list", "--ansi processing inside the item builders"],
    models=["io.Reader stub with the *os.File contract (data never together with an error)", "sync.Mutex no-op (critical sections atomic)", "bytes.IndexByte model"],
    assumptions=["readerBufferSize=3, readerSlabSize=6, chunkSize=3 (only these initialisers rewritten in an overlay copy of constants.go)"],
)


def suites(tier):
    q = tier == "quick"
    gen = scaled_constants(readerBufferSize=3, readerSlabSize=6, chunkSize=3)
    jobs = []
    for read0 in (0, 1):
        cfg = dict(read0=read0, reads=3 if q else 5, idle=0)
        jobs.append(dict(id=jid("feed", cfg), func="zzH_C06_feed", cfg=cfg))
    cfg = dict(read0=0, reads=0, idle=1)
    jobs.append(dict(id=jid("feed", cfg), func="zzH_C06_feed", cfg=cfg))
    for tail in ((0, 2) if q else (0, 1, 2, 4)):
        cfg = dict(tail=tail, ops=(8 if tail else 6) if q else 10)  # 8: trim, refill past the short first chunk, trim again
        jobs.append(dict(id=jid("chunks", cfg), func="zzH_C06_chunks", cfg=cfg))
    for wn, field in ((0, 1), (1, 1), (1, 2)):
        cfg = dict(withnth=wn, field=field, records=3, nmax=2 if q else 3, headers=2)
        jobs.append(dict(id=jid("build", cfg), func="zzH_C06_build", cfg=cfg))
    return [src_suite("src", jobs, readerBufferSize=3, readerSlabSize=6, chunkSize=3)]
